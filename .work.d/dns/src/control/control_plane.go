package control

import (
	"context"
	stderrors "errors"
	"fmt"
	"net"
	"net/netip"
	"os"
	"path/filepath"
	"runtime"
	"strconv"
	"strings"
	"sync"
	"sync/atomic"
	"syscall"
	"time"

	"github.com/bits-and-blooms/bloom/v3"
	"github.com/cilium/ebpf"
	"github.com/cilium/ebpf/asm"
	"github.com/cilium/ebpf/features"
	"github.com/cilium/ebpf/rlimit"
	"github.com/daeuniverse/dae/common"
	"github.com/daeuniverse/dae/common/assets"
	"github.com/daeuniverse/dae/common/consts"
	commonerrors "github.com/daeuniverse/dae/common/errors"
	"github.com/daeuniverse/dae/common/netutils"
	"github.com/daeuniverse/dae/component/daedns"
	"github.com/daeuniverse/dae/component/dns"
	"github.com/daeuniverse/dae/component/outbound"
	"github.com/daeuniverse/dae/component/outbound/dialer"
	"github.com/daeuniverse/dae/component/routing"
	"github.com/daeuniverse/dae/config"
	internal "github.com/daeuniverse/dae/pkg/ebpf_internal"
	"github.com/daeuniverse/outbound/netproxy"
	"github.com/daeuniverse/outbound/pool"
	"github.com/daeuniverse/outbound/protocol/direct"
	dnsmessage "github.com/miekg/dns"
	"github.com/sirupsen/logrus"
	"golang.org/x/sync/singleflight"
	"golang.org/x/sys/unix"
)
import verifsim "github.com/daeuniverse/dae/internal/verifsim"

var _ = verifsim.Yield
var _ sync.Locker

type ControlPlane struct {
	log	*logrus.Logger

	runtimeStats	*runtimeStats

	core		*controlPlaneCore
	deferFuncs	[]func() error
	listenIp	string

	controlPlaneGenerationState
	inConnections		verifsim.Map
	rejectNewConnections	atomic.Bool
	drainTracker		*controlPlaneDrainTracker

	controlPlaneDNSRuntime
	dnsHandoffMu		verifsim.Mutex
	dnsHandoffController	atomic.Pointer[DnsController]
	dnsHandoffOwned		bool
	onceNetworkReady	verifsim.Once

	ctx		context.Context
	cancel		context.CancelFunc
	ready		chan struct{}
	readyOnce	verifsim.Once

	muRealDomainSet		verifsim.RWMutex
	realDomainSet		*bloom.BloomFilter
	realDomainNegSet	verifsim.Map	// map[string]int64 (expiresAt unix nano)
	dnsDialerSnapshot	verifsim.Map	// map[dnsDialerSnapshotKey]*dnsDialerSnapshotEntry
	dnsDialerPenalty	verifsim.Map	// map[dnsDialerPenaltyKey]*dnsDialerPenaltyEntry
	tcpSniffNegMu		verifsim.RWMutex
	tcpSniffNegSet		map[tcpSniffNegKey]tcpSniffNegEntry
	realDomainProbeS	singleflight.Group
	negJanitorStop		chan struct{}
	negJanitorDone		chan struct{}
	negJanitorOnce		verifsim.Once

	controlPlaneDatapathJanitor

	// Track last alert time to avoid spamming logs
	lastBpfOverflowAlertTime	atomic.Int64
	lastUdpPressureAlertTime	atomic.Int64
	lastTcpPressureAlertTime	atomic.Int64

	wanInterface	[]string
	lanInterface	[]string

	sniffingTimeout			time.Duration
	tproxyPortProtect		bool
	soMarkFromDae			uint32
	mptcp				bool
	udpRouteScopeSensitive		bool
	udpUnorderedRunner		*udpUnorderedTaskRunner
	failedQuicDcidCache		*failedQuicDcidCache
	lastConnectionErrorLogTime	atomic.Int64
	lastDnsFastPathErrorLogTime	atomic.Int64
	lastDnsFastPathServfailLogTime	atomic.Int64
	listenerPublishMu		verifsim.Mutex
	listenerFiles			[]*os.File
	preparedDatapathCommit		bool
	autoConfigKernelParameter	bool
	routingKernspaceSnapshot	*routingKernspaceSnapshot
	pendingDnsReloadCache		map[string]*DnsCache
	sharedBpfReload			bool
	closeOnce			verifsim.Once
	closeErr			error
}

type controlPlaneBuildOptions struct {
	delayDatapathCommit	bool
	delayDNSListenerStart	bool
}

const (
	janitorBatchLookupSize	= 1024
	janitorDeleteInitCap	= 256
	janitorDeleteRetainMax	= 8192
)

func ensureJanitorLookupScratch[T any](buf []T) []T {
	if cap(buf) < janitorBatchLookupSize {
		return make([]T, janitorBatchLookupSize)
	}
	return buf[:janitorBatchLookupSize]
}

func takeJanitorDeleteScratch[T any](buf []T) []T {
	if cap(buf) < janitorDeleteInitCap {
		return make([]T, 0, janitorDeleteInitCap)
	}
	return buf[:0]
}

func keepJanitorDeleteScratch[T any](buf []T) []T {
	if cap(buf) > janitorDeleteRetainMax {
		return make([]T, 0, janitorDeleteInitCap)
	}
	return buf[:0]
}

var (
	realDomainNegativeCacheTTL	= 10 * time.Second

	gracefulShutdownWaitTimeout	= 5 * time.Second

	controlPlaneDeferredCleanupTimeout	= 5 * time.Second
	preparedDNSWarmupTimeout		= 15 * time.Second

	realDomainProbeTimeout	= 500 * time.Millisecond

	dnsDialerSnapshotTTL		= 2 * time.Second
	dnsDialerPenaltyTTL		= 5 * time.Second
	realDomainNegJanitorInterval	= 30 * time.Second

	udpConnStateTimeoutDNS	= 17 * time.Second

	dnsPortNetworkOrder	= common.Htons(53)

	connStateJanitorPressureInterval	= 1 * time.Second

	connStateJanitorSteadyInterval	= 5 * time.Second

	redirectTrackJanitorPressureInterval	= 5 * time.Second

	redirectTrackJanitorSteadyInterval	= 30 * time.Second

	cookiePidMapTimeout	= 5 * time.Minute

	connStateJanitorPressureEnterUsage	= 70

	connStateJanitorPressureExitUsage	= 50

	connStateJanitorPressureExitRounds	= 3

	routingHandoffTimeout	= 10 * time.Second

	routingHandoffPressureInterval	= 1 * time.Second

	routingHandoffSteadyInterval	= 5 * time.Second
	dnsFastPathErrorLogInterval	= 5 * time.Second

	tcpConnStateTimeoutEstablished	= 120 * time.Second
	tcpConnStateTimeoutClosing	= 10 * time.Second

	resolveIp46ForBootstrap		= netutils.ResolveIp46
	resolveIp46ForRealDomainProbe	= netutils.ResolveIp46
)

type mapCleanupStats struct {
	entries		int
	deleted		int
	usagePercent	int
	maxEntries	int
}

type connStateJanitorPressureState struct {
	active			bool
	belowThresholdRounds	int
	lastUdpOverflow		uint64
	lastTcpOverflow		uint64
}

func isIPLikeDomain(domain string) bool {
	if domain == "" {
		return false
	}
	if strings.HasPrefix(domain, "[") && strings.HasSuffix(domain, "]") {
		domain = domain[1 : len(domain)-1]
	}
	if _, err := netip.ParseAddr(domain); err == nil {
		return true
	}
	if host, _, err := net.SplitHostPort(domain); err == nil {
		if strings.HasPrefix(host, "[") && strings.HasSuffix(host, "]") {
			host = host[1 : len(host)-1]
		}
		if _, err := netip.ParseAddr(host); err == nil {
			return true
		}
	}
	return false
}

func NewControlPlane(
	log *logrus.Logger,
	_bpf any,
	dnsCache map[string]*DnsCache,
	tagToNodeList map[string][]string,
	groups []config.Group,
	routingA *config.Routing,
	global *config.Global,
	dnsConfig *config.Dns,
	externGeoDataDirs []string,
) (plane *ControlPlane, err error) {
	return newControlPlaneWithContextOptions(
		context.Background(),
		log,
		_bpf,
		dnsCache,
		tagToNodeList,
		groups,
		routingA,
		global,
		dnsConfig,
		externGeoDataDirs,
		controlPlaneBuildOptions{},
	)
}

func NewControlPlaneWithContext(
	ctx context.Context,
	log *logrus.Logger,
	_bpf any,
	dnsCache map[string]*DnsCache,
	tagToNodeList map[string][]string,
	groups []config.Group,
	routingA *config.Routing,
	global *config.Global,
	dnsConfig *config.Dns,
	externGeoDataDirs []string,
) (plane *ControlPlane, err error) {
	return newControlPlaneWithContextOptions(
		ctx,
		log,
		_bpf,
		dnsCache,
		tagToNodeList,
		groups,
		routingA,
		global,
		dnsConfig,
		externGeoDataDirs,
		controlPlaneBuildOptions{},
	)
}

func NewPreparedControlPlaneWithContext(
	ctx context.Context,
	log *logrus.Logger,
	_bpf any,
	dnsCache map[string]*DnsCache,
	tagToNodeList map[string][]string,
	groups []config.Group,
	routingA *config.Routing,
	global *config.Global,
	dnsConfig *config.Dns,
	externGeoDataDirs []string,
) (plane *ControlPlane, err error) {
	return newControlPlaneWithContextOptions(
		ctx,
		log,
		_bpf,
		dnsCache,
		tagToNodeList,
		groups,
		routingA,
		global,
		dnsConfig,
		externGeoDataDirs,
		controlPlaneBuildOptions{
			delayDatapathCommit:	true,
			delayDNSListenerStart:	true,
		},
	)
}

func newControlPlaneWithContextOptions(
	ctx context.Context,
	log *logrus.Logger,
	_bpf any,
	dnsCache map[string]*DnsCache,
	tagToNodeList map[string][]string,
	groups []config.Group,
	routingA *config.Routing,
	global *config.Global,
	dnsConfig *config.Dns,
	externGeoDataDirs []string,
	buildOpts controlPlaneBuildOptions,
) (plane *ControlPlane, err error) {

	_ = ctx

	ClearFailedQuicDcids()

	if global.SoMarkFromDae == 0 {
		var autoSelected bool
		global.SoMarkFromDae, autoSelected = common.ResolveSoMarkFromDae(global.SoMarkFromDae, global.SoMarkFromDaeSet)
		if autoSelected {
			log.Warnf("so_mark_from_dae is unset; using internal socket mark %#x to prevent dae UDP self-capture", global.SoMarkFromDae)
		}
	}

	dialer.SetQuicDcidCacheClearFunc(ClearFailedQuicDcids)

	bootstrapResolvers, err := config.BootstrapResolvers(global)
	if err != nil {
		return nil, err
	}

	if _, ok := os.LookupEnv("QUIC_GO_DISABLE_GSO"); !ok {
		_ = os.Setenv("QUIC_GO_DISABLE_GSO", "1")
	}

	kernelVersion, e := internal.KernelVersion()
	if e != nil {
		return nil, fmt.Errorf("failed to get kernel version: %w", e)
	}

	if err := features.HaveProgramHelper(ebpf.SchedCLS, asm.FnLoop); err != nil {
		return nil, fmt.Errorf("%w: your kernel version %v does not support bpf_loop (needed by routing); expect >=%v; upgrade your kernel and try again",
			err,
			kernelVersion.String(),
			consts.BpfLoopFeatureVersion.String())
	}
	if requirement := consts.ChecksumFeatureVersion; kernelVersion.Less(requirement) {
		return nil, fmt.Errorf("your kernel version %v does not support checksum related features; expect >=%v; upgrade your kernel and try again",
			kernelVersion.String(),
			requirement.String())
	}
	if requirement := consts.BpfTimerFeatureVersion; len(global.WanInterface) > 0 && kernelVersion.Less(requirement) {
		return nil, fmt.Errorf("your kernel version %v does not support bind to WAN; expect >=%v; remove wan_interface in config file and try again",
			kernelVersion.String(),
			requirement.String())
	}
	if requirement := consts.SkAssignFeatureVersion; len(global.LanInterface) > 0 && kernelVersion.Less(requirement) {
		return nil, fmt.Errorf("your kernel version %v does not support bind to LAN; expect >=%v; remove lan_interface in config file and try again",
			kernelVersion.String(),
			requirement.String())
	}
	if kernelVersion.Less(consts.BasicFeatureVersion) {
		return nil, fmt.Errorf("your kernel version %v does not satisfy basic requirement; expect >=%v",
			kernelVersion.String(),
			consts.BasicFeatureVersion.String())
	}

	var deferFuncs []func() error

	if err = rlimit.RemoveMemlock(); err != nil {
		return nil, fmt.Errorf("rlimit.RemoveMemlock:%v", err)
	}

	InitDaeNetns(log)
	if err = InitSysctlManager(log); err != nil {
		return nil, err
	}

	if err = GetDaeNetns().Setup(); err != nil {
		return nil, fmt.Errorf("failed to setup dae netns: %w", err)
	}
	pinPath := filepath.Join(consts.BpfPinRoot, consts.AppName)
	if err = os.MkdirAll(pinPath, 0755); err != nil && !os.IsExist(err) {
		if os.IsNotExist(err) {
			log.Warnln("Perhaps you are in a container environment (such as lxc). If so, please use higher virtualization (kvm/qemu).")
		}
		return nil, err
	}

	if _bpf == nil {

		cleanupPinnedConnStateMapFiles(log, pinPath)
		log.Infof("Loading eBPF programs and maps into the kernel...")
		log.Infof("The loading process takes about 120MB free memory, which will be released after loading. Insufficient memory will cause loading failure.")
	}

	ProgramOptions := ebpf.ProgramOptions{
		KernelTypes: nil,
	}
	if log.Level == logrus.PanicLevel {
		ProgramOptions.LogLevel = ebpf.LogLevelBranch | ebpf.LogLevelStats

	}
	collectionOpts := &ebpf.CollectionOptions{
		Maps: ebpf.MapOptions{
			PinPath: pinPath,
		},
		Programs:	ProgramOptions,
	}

	var bpf *bpfObjects
	if _bpf != nil {
		if obj, ok := _bpf.(*bpfObjects); ok {
			bpf = obj
		} else {
			return nil, fmt.Errorf("unexpected bpf type: %T", _bpf)
		}
	} else {
		bpf = new(bpfObjects)
		if err = fullLoadBpfObjects(log, bpf, &loadBpfOptions{
			PinPath:		pinPath,
			CollectionOptions:	collectionOpts,
			ConnStateMapMaxEntries:	global.BpfConnStateMapSize,
		}, global.SoMarkFromDae); err != nil {
			if log.Level == logrus.PanicLevel {
				log.Panicln(err)
			}
			return nil, fmt.Errorf("load eBPF objects: %w", err)
		}
	}

	if err = validateRequiredBpfMapsLoaded(bpf); err != nil {
		return nil, fmt.Errorf("validate bpf maps: %w", err)
	}
	log.Infof("Loaded eBPF programs and maps")

	outboundId2Name := make(map[uint8]string)
	core := newControlPlaneCore(
		log,
		bpf,
		outboundId2Name,
		&kernelVersion,
		_bpf != nil,
	)
	defer func() {
		if err != nil {
			if plane != nil {
				_ = plane.Close()
			} else {

				for i := len(deferFuncs) - 1; i >= 0; i-- {
					_ = deferFuncs[i]()
				}
				_ = core.Close()
			}
		}
	}()

	if global.AllowInsecure {
		log.Warnln("AllowInsecure is enabled, but it is not recommended. Please make sure you have to turn it on.")
	}
	locationFinder := assets.NewLocationFinder(externGeoDataDirs)
	option := dialer.NewGlobalOption(global, log)
	option.DaeDNS, err = daedns.NewWithOption(log, global, dnsConfig, &daedns.NewOption{LocationFinder: locationFinder})
	if err != nil {
		return nil, err
	}

	dialMode, err := consts.ParseDialMode(global.DialMode)
	if err != nil {
		return nil, err
	}
	sniffingTimeout := global.SniffingTimeout
	if dialMode == consts.DialMode_Ip {
		sniffingTimeout = 0
	}
	disableKernelAliveCallback := dialMode != consts.DialMode_Ip
	_direct, directProperty := dialer.NewDirectDialer(option, true)
	direct := dialer.NewDialerContext(context.Background(), _direct, option, dialer.InstanceOption{DisableCheck: true}, directProperty)
	_block, blockProperty := dialer.NewBlockDialer(option, func() {})
	block := dialer.NewDialerContext(context.Background(), _block, option, dialer.InstanceOption{DisableCheck: true}, blockProperty)
	outbounds := []*outbound.DialerGroup{
		outbound.NewDialerGroup(option, consts.OutboundDirect.String(),
			[]*dialer.Dialer{direct}, []*dialer.Annotation{{}},
			outbound.DialerSelectionPolicy{
				Policy:		consts.DialerSelectionPolicy_Fixed,
				FixedIndex:	0,
			}, core.outboundAliveChangeCallback(0, disableKernelAliveCallback)),
		outbound.NewDialerGroup(option, consts.OutboundBlock.String(),
			[]*dialer.Dialer{block}, []*dialer.Annotation{{}},
			outbound.DialerSelectionPolicy{
				Policy:		consts.DialerSelectionPolicy_Fixed,
				FixedIndex:	0,
			}, core.outboundAliveChangeCallback(1, disableKernelAliveCallback)),
	}

	dialerSet := outbound.NewDialerSetFromLinksContext(context.Background(), option, tagToNodeList)
	deferFuncs = append(deferFuncs, dialerSet.Close)
	deferFuncs = append(deferFuncs, func() error {
		dialer.CleanupTransportCacheNamespace(option.TransportCacheNamespace)
		return nil
	})
	for _, group := range groups {

		policy, err := outbound.NewDialerSelectionPolicyFromGroupParam(&group)
		if err != nil {
			return nil, fmt.Errorf("failed to create group %v: %w", group.Name, err)
		}

		dialers, annos, err := dialerSet.FilterAndAnnotate(group.Filter, group.FilterAnnotation)
		if err != nil {
			return nil, fmt.Errorf(`failed to create group "%v": %w`, group.Name, err)
		}

		if log.IsLevelEnabled(logrus.DebugLevel) {
			log.Debugf(`Group "%v" node list:`, group.Name)
			for _, d := range dialers {
				log.Debugln("\t" + d.Property().Name)
			}
			if len(dialers) == 0 {
				log.Debugln("\t<Empty>")
			}
		}
		groupOption, err := ParseGroupOverrideOption(group, *global, log)
		finalOption := option
		if err == nil && groupOption != nil {
			groupOption.TransportCacheNamespace = option.TransportCacheNamespace
			newDialers := make([]*dialer.Dialer, 0)
			for _, d := range dialers {
				newDialer := d.CloneWithGlobalOptionContext(context.Background(), groupOption)
				deferFuncs = append(deferFuncs, newDialer.Close)
				newDialers = append(newDialers, newDialer)
			}
			log.Infof(`Group "%v"'s check option has been override.`, group.Name)
			dialers = newDialers
			finalOption = groupOption
		}

		dialerGroup := outbound.NewDialerGroup(finalOption, group.Name, dialers, annos, *policy,
			core.outboundAliveChangeCallback(uint8(len(outbounds)), disableKernelAliveCallback))
		outbounds = append(outbounds, dialerGroup)
	}

	registeredDialerCallbacks := make(map[*dialer.Dialer]struct{})
	for _, group := range outbounds {
		for _, d := range group.Dialers {
			if _, ok := registeredDialerCallbacks[d]; ok {
				continue
			}
			registeredDialerCallbacks[d] = struct{}{}
			d.RegisterAliveTransitionCallback(core.dialerAliveTransitionCallback(d))
		}
	}

	if len(outbounds) > int(consts.OutboundUserDefinedMax) {
		return nil, fmt.Errorf("too many outbounds")
	}
	outboundName2Id := make(map[string]uint8)
	for i, o := range outbounds {
		if _, exist := outboundName2Id[o.Name]; exist {
			return nil, fmt.Errorf("duplicated outbound name: %v", o.Name)
		}
		outboundName2Id[o.Name] = uint8(i)
		outboundId2Name[uint8(i)] = o.Name
	}

	log.Infoln("Optimizing and loading routing rules (this may take a while for large rule sets)...")
	routingProgram, err := routing.NewNormalizedProgram(routingA.Rules, routingA.Fallback,
		&routing.AliasOptimizer{},
		&routing.DatReaderOptimizer{Logger: log, LocationFinder: locationFinder},
		&routing.MergeAndSortRulesOptimizer{},
		&routing.DeduplicateParamsOptimizer{},
	)
	if err != nil {
		return nil, fmt.Errorf("ApplyRulesOptimizers error:\n%w", err)
	}
	routingA.Rules = nil
	if log.IsLevelEnabled(logrus.DebugLevel) {
		var debugBuilder strings.Builder
		for _, rule := range routingProgram.Rules {
			debugBuilder.WriteString(rule.String(true, false, false) + "\n")
		}
		log.Debugf("RoutingA:\n%vfallback: %v\n", debugBuilder.String(), routingProgram.Fallback)
	}

	log.Infoln("Building routing matcher...")
	verifsim.Yield("control_plane.go:655")
	builder, err := NewRoutingMatcherBuilderFromProgram(log, routingProgram, outboundName2Id, core.bpf.Load())
	if err != nil {
		return nil, fmt.Errorf("NewRoutingMatcherBuilder: %w", err)
	}
	kernspaceSnapshot := builder.KernspaceSnapshot()
	if !buildOpts.delayDatapathCommit {
		log.Infoln("Loading routing rules into kernel space (BPF)...")
		var lpmIndices []uint32
		verifsim.Yield("control_plane.go:663")
		if lpmIndices, err = kernspaceSnapshot.BuildKernspace(log, core.bpf.Load()); err != nil {
			return nil, fmt.Errorf("routing kernspace snapshot: %w", err)
		}
		core.lpmTrieIndices = lpmIndices
	} else {
		log.Infoln("Prepared routing matcher; kernel-space routing commit deferred until listener cutover")
	}
	log.Infoln("Building userspace routing matcher...")
	routingMatcher, err := builder.BuildUserspace()
	if err != nil {
		return nil, fmt.Errorf("RoutingMatcherBuilder.BuildUserspace: %w", err)
	}

	referencedOutbounds := builder.GetReferencedOutbounds()
	if len(referencedOutbounds) > 0 {
		var names []string
		for _, name := range verifsim.SortedKeys(referencedOutbounds) {
			if _, _vok1 := referencedOutbounds[name]; !_vok1 {
				continue
			}
			names = append(names, name)
		}
		log.Infof("Health check will only verify %d outbounds referenced by routing rules: %v",
			len(names), names)
	} else {
		log.Warnln("No outbounds referenced by routing rules; all outbounds will be health-checked")

		for _, o := range outbounds {
			referencedOutbounds[o.Name] = struct{}{}
		}
	}

	// Routing compilation allocates large temporary slices and trie builders.
	// Startup/reload is infrequent.
	var m runtime.MemStats
	runtime.ReadMemStats(&m)
	log.Infof("Memory usage after routing build: Alloc=%vMiB, Sys=%vMiB, HeapObjects=%v",
		m.Alloc/1024/1024, m.Sys/1024/1024, m.HeapObjects)

	cctx, cancel := context.WithCancel(context.Background())
	plane = &ControlPlane{
		log:		log,
		runtimeStats:	newRuntimeStats(),
		core:		core,
		deferFuncs:	deferFuncs,
		listenIp:	"0.0.0.0",
		controlPlaneGenerationState: controlPlaneGenerationState{
			outbounds:		outbounds,
			referencedOutbounds:	referencedOutbounds,
			dialMode:		dialMode,
			routingMatcher:		routingMatcher,
			bootstrapResolvers:	bootstrapResolvers,
		},
		controlPlaneDNSRuntime:		newControlPlaneDNSRuntime(buildOpts.delayDNSListenerStart),
		controlPlaneDatapathJanitor:	newControlPlaneDatapathJanitor(),
		onceNetworkReady:		verifsim.Once{},
		drainTracker:			newControlPlaneDrainTracker(),
		ctx:				cctx,
		cancel:				cancel,
		ready:				make(chan struct{}),
		autoConfigKernelParameter:	global.AutoConfigKernelParameter,
		routingKernspaceSnapshot:	kernspaceSnapshot,
		preparedDatapathCommit:		buildOpts.delayDatapathCommit,
		sharedBpfReload:		_bpf != nil,
		pendingDnsReloadCache:		dnsCache,
		muRealDomainSet:		verifsim.RWMutex{},
		realDomainSet:			bloom.NewWithEstimates(2048, 0.001),
		tcpSniffNegSet:			make(map[tcpSniffNegKey]tcpSniffNegEntry),
		negJanitorStop:			make(chan struct{}),
		negJanitorDone:			make(chan struct{}),
		lanInterface:			global.LanInterface,
		wanInterface:			global.WanInterface,
		sniffingTimeout:		sniffingTimeout,
		tproxyPortProtect:		global.TproxyPortProtect,
		soMarkFromDae:			global.SoMarkFromDae,
		mptcp:				global.Mptcp,
		udpRouteScopeSensitive:		builder.UsesPacketMetadataRouting(),
		udpUnorderedRunner:		newDefaultUdpUnorderedTaskRunner(cctx),
		failedQuicDcidCache:		newFailedQuicDcidCache(failedQuicDcidCacheMaxEntries),
	}
	SetFailedQuicDcidCache(plane.failedQuicDcidCache)
	SetAnyfromSoMark(global.SoMarkFromDae)
	plane.runtimeStats.startRoller(cctx)
	plane.deferFuncs = append(plane.deferFuncs, plane.closePublishedListenerFiles)
	plane.startRealDomainNegJanitor()
	if !buildOpts.delayDatapathCommit {
		plane.startConnStateJanitor()
	}

	var upstreamHostResolver func(ctx context.Context, host string, network string) (*netutils.Ip46, error, error)
	if len(bootstrapResolvers) > 0 {
		upstreamHostResolver = plane.resolveBootstrapIp46
	}

	dnsUpstream, err := dns.New(dnsConfig, &dns.NewOption{
		Logger:				log,
		LocationFinder:			locationFinder,
		UpstreamReadyCallback:		plane.dnsUpstreamReadyCallback,
		UpstreamResolverNetwork:	common.MagicNetwork("udp", global.SoMarkFromDae, global.Mptcp),
		UpstreamHostResolver:		upstreamHostResolver,
	})
	if err != nil {
		return nil, err
	}

	fixedDomainTtl, err := ParseFixedDomainTtl(dnsConfig.FixedDomainTtl)
	if err != nil {
		return nil, err
	}
	plane.dnsRouting = dnsUpstream
	plane.dnsFixedDomainTtl = fixedDomainTtl

	plane.dnsOptimisticCache = dnsConfig.OptimisticCache
	plane.dnsOptimisticCacheTtl = dnsConfig.OptimisticCacheTtl
	plane.dnsMaxCacheSize = dnsConfig.MaxCacheSize
	plane.dnsIpVersionPrefer = dnsConfig.IpVersionPrefer
	dnsControllerOption := plane.dnsControllerOption()
	plane.dnsController, err = NewDnsController(dnsUpstream, dnsControllerOption)
	if err != nil {
		return nil, err
	}
	plane.deferFuncs = append(plane.deferFuncs, plane.closeOwnedDNSController)

	if dnsConfig.Bind != "" {
		plane.dnsListener, err = NewDNSListener(log, dnsConfig.Bind, plane)
		if err != nil {
			return nil, err
		}
		if !buildOpts.delayDNSListenerStart {
			if err = plane.dnsListener.Start(); err != nil {
				log.Errorf("Failed to start DNS listener: %v", err)
			} else {
				log.Infof("DNS listener started on %s", dnsConfig.Bind)
				plane.registerDNSListenerStop()
			}
		}
	}

	if err = dnsUpstream.CheckUpstreamsFormat(); err != nil {
		return nil, err
	}
	verifsim.Go("control_plane.go:809", func() {
		defer close(plane.dnsUpstreamsReady)
		dnsUpstream.InitUpstreams(plane.ctx)
	})

	if buildOpts.delayDatapathCommit {
		plane.preparedDatapathCommit = true
	} else {
		if err = plane.commitInterfaceBindings(); err != nil {
			return nil, err
		}
		if plane.sharedBpfReload {
			verifsim.Yield("control_plane.go:821")
			if err = clearReloadDomainRoutingMap(core.bpf.Load()); err != nil {
				return nil, fmt.Errorf("clearReloadDomainRoutingMap: %w", err)
			}
		}
		plane.replayDnsReloadCache()
		plane.markReady()
	}
	return plane, nil
}

func ParseFixedDomainTtl(ks []config.KeyableString) (map[string]int, error) {
	m := make(map[string]int)
	for _, k := range ks {
		key, value, _ := strings.Cut(string(k), ":")
		ttl, err := strconv.ParseInt(strings.TrimSpace(value), 0, strconv.IntSize)
		if err != nil {
			return nil, fmt.Errorf("failed to parse ttl: %v", err)
		}
		m[strings.ToLower(strings.TrimSpace(key))] = int(ttl)
	}
	return m, nil
}

func ParseGroupOverrideOption(group config.Group, global config.Global, log *logrus.Logger) (*dialer.GlobalOption, error) {
	result := global
	changed := false
	if group.TcpCheckUrl != nil {
		result.TcpCheckUrl = group.TcpCheckUrl
		changed = true
	}
	if group.TcpCheckHttpMethod != "" {
		result.TcpCheckHttpMethod = group.TcpCheckHttpMethod
		changed = true
	}
	if group.UdpCheckDns != nil {
		result.UdpCheckDns = group.UdpCheckDns
		changed = true
	}
	if group.CheckInterval != 0 {
		result.CheckInterval = group.CheckInterval
		changed = true
	}
	if group.CheckTolerance != 0 {
		result.CheckTolerance = group.CheckTolerance
		changed = true
	}
	if changed {
		option := dialer.NewGlobalOption(&result, log)
		return option, nil
	}
	return nil, nil
}

func clearReloadDomainRoutingMap(bpf *bpfObjects) error {
	return BpfMapBatchDeleteAll[[4]uint32, bpfDomainRouting](bpf.DomainRoutingMap)
}

func validateRequiredBpfMapsLoaded(bpf *bpfObjects) error {
	if bpf == nil {
		return fmt.Errorf("nil bpf objects")
	}
	required := []struct {
		name	string
		m	*ebpf.Map
	}{
		{name: "domain_routing_map", m: bpf.DomainRoutingMap},
		{name: "conn_state_map", m: bpf.ConnStateMap},
		{name: "routing_handoff_map", m: bpf.RoutingHandoffMap},
		{name: "routing_map", m: bpf.RoutingMap},
		{name: "routing_meta_map", m: bpf.RoutingMetaMap},
	}
	for _, r := range required {
		if r.m == nil {
			return fmt.Errorf("required map %q is nil", r.name)
		}
	}
	return nil
}

func (c *ControlPlane) EjectBpf() *bpfObjects {
	if c.core == nil {
		return nil
	}
	return c.core.EjectBpf()
}

func (c *ControlPlane) InjectBpf(bpf *bpfObjects) {
	c.core.InjectBpf(bpf)
}

func (c *ControlPlane) PeekBpf() *bpfObjects {
	if c == nil || c.core == nil {
		return nil
	}
	return c.core.PeekBpf()
}

func (c *ControlPlane) ActiveSessionCount() int {
	if c == nil || c.drainTracker == nil {
		return 0
	}
	return c.drainTracker.Count()
}

func (c *ControlPlane) DrainIdleCh() <-chan struct{} {
	if c == nil || c.drainTracker == nil {
		return closedDrainIdleCh
	}
	return c.drainTracker.IdleCh()
}

func (c *ControlPlane) EjectLpmIndices() []uint32 {
	if c == nil || c.core == nil {
		return nil
	}
	return c.core.EjectLpmIndices()
}

func (c *ControlPlane) InheritLpmIndices(indices []uint32) {
	if c == nil || c.core == nil {
		return
	}
	c.core.InheritLpmIndices(indices)
}

func (c *ControlPlane) ReplaceLpmIndices(indices []uint32) {
	if c == nil || c.core == nil {
		return
	}
	c.core.ReplaceLpmIndices(indices)
}

func (c *ControlPlane) currentBpf() *bpfObjects {
	if c == nil || c.core == nil {
		return nil
	}
	return c.core.PeekBpf()
}

func (c *ControlPlane) acquireDrainTicket() func() {
	if c == nil || c.drainTracker == nil {
		return func() {}
	}
	return c.drainTracker.Acquire()
}

func (c *ControlPlane) CloneDnsCache() map[string]*DnsCache {
	if c == nil {
		return nil
	}
	return c.cloneDnsCache()
}

func (c *ControlPlane) ActiveDnsController() *DnsController {
	if c == nil {
		return nil
	}
	return c.activeController(&c.dnsHandoffController)
}

func (c *ControlPlane) dnsRequestContext(ctx context.Context, controller *DnsController) context.Context {
	if ctx == nil {
		ctx = context.Background()
	}
	if c == nil || controller == nil || controller == c.dnsController {
		return ctx
	}
	verifsim.Yield("control_plane.go:998")
	if c.dnsHandoffController.Load() == controller {
		return controller.baseContext()
	}
	return ctx
}

func (c *ControlPlane) SharesActiveDnsControllerWith(other *ControlPlane) bool {
	if c == nil || other == nil {
		return false
	}
	controller := c.ActiveDnsController()
	return controller != nil && controller == other.ActiveDnsController()
}

func (c *ControlPlane) DetachDnsController() *DnsController {
	if c == nil {
		return nil
	}
	return c.detachController()
}

func (c *ControlPlane) replaceDNSHandoffController(controller *DnsController, owned bool) (*DnsController, bool) {
	if c == nil {
		return nil, false
	}
	verifsim.Yield("control_plane.go:1025")
	c.dnsHandoffMu.Lock()
	defer c.dnsHandoffMu.Unlock()
	verifsim.Yield("control_plane.go:1028")

	previous := c.dnsHandoffController.Load()
	previousOwned := c.dnsHandoffOwned
	c.dnsHandoffOwned = owned && controller != nil
	verifsim.Yield("control_plane.go:1031")
	c.dnsHandoffController.Store(controller)
	return previous, previousOwned
}

func (c *ControlPlane) clearDNSHandoffControllerIfMatch(controller *DnsController) (*DnsController, bool, bool) {
	if c == nil {
		return nil, false, false
	}
	verifsim.Yield("control_plane.go:1039")
	c.dnsHandoffMu.Lock()
	defer c.dnsHandoffMu.Unlock()
	verifsim.Yield("control_plane.go:1042")

	current := c.dnsHandoffController.Load()
	if current != controller {
		return current, false, false
	}
	owned := c.dnsHandoffOwned
	c.dnsHandoffOwned = false
	verifsim.Yield("control_plane.go:1048")
	c.dnsHandoffController.Store(nil)
	return current, owned, true
}

func (c *ControlPlane) takeDNSHandoffController() (*DnsController, bool) {
	if c == nil {
		return nil, false
	}
	verifsim.Yield("control_plane.go:1056")
	c.dnsHandoffMu.Lock()
	defer c.dnsHandoffMu.Unlock()
	verifsim.Yield("control_plane.go:1059")

	controller := c.dnsHandoffController.Load()
	owned := c.dnsHandoffOwned
	c.dnsHandoffOwned = false
	verifsim.Yield("control_plane.go:1062")
	c.dnsHandoffController.Store(nil)
	return controller, owned
}

func (c *ControlPlane) EnableDNSHandoff(controller *DnsController, duration time.Duration) {
	if c == nil || controller == nil {
		return
	}
	if c.log != nil {
		c.log.WithField("duration", duration).Warnln("[Reload] Enabled DNS handoff controller")
	}
	if previous, previousOwned := c.replaceDNSHandoffController(controller, true); previous != nil && previousOwned && previous != controller {
		_ = previous.Close()
	}
	{
		_vf6 := func(ctrl *DnsController) {
			timer := time.NewTimer(duration)
			defer timer.Stop()
			{
				verifsim.Yield("control_plane.go:1079")
				_vc2 := timer.C
				_vc3 := c.ctx.Done()
				_vi4 := -1
				for _, _vo5 := range verifsim.SelectOrder("control_plane.go:1079", 2) {
					switch _vo5 {
					case 0:
						select {
						case <-_vc2:
							_vi4 = 0
						default:
						}
					case 1:
						select {
						case <-_vc3:
							_vi4 = 1
						default:
						}
					}
					if _vi4 >= 0 {
						break
					}
				}
				if _vi4 < 0 {
					select {
					case <-_vc2:
						_vi4 = 0
					case <-_vc3:
						_vi4 = 1
					}
					verifsim.Yield("control_plane.go:1079+")
				}
				switch _vi4 {
				case 0:
					if _, owned, cleared := c.clearDNSHandoffControllerIfMatch(ctrl); cleared {
						if c.log != nil {
							c.log.Warnln("[Reload] DNS handoff controller expired")
						}
						if owned {
							_ = ctrl.Close()
						}
					}
				case 1:

					if _, owned, cleared := c.clearDNSHandoffControllerIfMatch(ctrl); cleared && owned {
						_ = ctrl.Close()
					}
				default:
					panic("verifsim: select dispatch: no case chosen")
				}
			}

		}
		_va7 := controller
		verifsim.Go("control_plane.go:1076", func() {
			_vf6(_va7)
		})
	}
}

func (c *ControlPlane) SetDNSHandoffController(controller *DnsController) {
	if c == nil {
		return
	}
	if previous, previousOwned := c.replaceDNSHandoffController(controller, false); previous != nil && previousOwned && previous != controller {
		_ = previous.Close()
	}
}

func (c *ControlPlane) InheritDialerHealthFrom(previous *ControlPlane) bool {
	if c == nil || previous == nil {
		return false
	}

	var hasOverlap bool

	previousGroups := make(map[string]*outbound.DialerGroup, len(previous.outbounds))
	for _, group := range previous.outbounds {
		if group == nil {
			continue
		}
		previousGroups[group.Name] = group
	}

	// Dialers are shared between groups. The selection floors are therefore applied
	// only after every snapshot has been restored: restoring a shared dialer for a
	// later group would otherwise undo the floor an earlier group had just been given
	// and leave that group without a selectable dialer.
	type pendingFloor struct {
		group		*outbound.DialerGroup
		fallback	outbound.ReloadSelectionFallback
	}
	var floors []pendingFloor

	for _, group := range c.outbounds {
		if group == nil {
			continue
		}
		oldGroup := previousGroups[group.Name]
		if oldGroup == nil {
			continue
		}
		floors = append(floors, pendingFloor{group: group, fallback: group.CaptureReloadSelectionFallback()})
	}

	for _, group := range c.outbounds {
		if group == nil {
			continue
		}
		oldGroup := previousGroups[group.Name]
		if oldGroup == nil {
			continue
		}
		oldDialers := make(map[string]*dialer.Dialer, len(oldGroup.Dialers))
		for _, d := range oldGroup.Dialers {
			if d == nil || d.Property() == nil {
				continue
			}
			oldDialers[d.Property().Name] = d
		}
		for _, d := range group.Dialers {
			if d == nil || d.Property() == nil {
				continue
			}
			if oldDialer := oldDialers[d.Property().Name]; oldDialer != nil {
				d.RestoreHealthSnapshot(oldDialer.ReloadHealthSnapshot())
				hasOverlap = true
			}
		}
	}
	for _, f := range floors {
		f.group.EnsureReloadSelectionFloor(f.fallback)
	}
	return hasOverlap
}

func updateConnStateJanitorPressure(
	state connStateJanitorPressureState,
	overflowDelta bool,
	maxUsagePercent int,
) connStateJanitorPressureState {
	if overflowDelta || maxUsagePercent >= connStateJanitorPressureEnterUsage {
		state.active = true
		state.belowThresholdRounds = 0
		return state
	}
	if !state.active {
		return state
	}
	if maxUsagePercent < connStateJanitorPressureExitUsage {
		state.belowThresholdRounds++
		if state.belowThresholdRounds >= connStateJanitorPressureExitRounds {
			state.active = false
			state.belowThresholdRounds = 0
		}
		return state
	}
	state.belowThresholdRounds = 0
	return state
}

func isIgnorableBatchLookupErr(err error) bool {
	if err == nil {
		return false
	}
	if stderrors.Is(err, ebpf.ErrKeyNotExist) ||
		stderrors.Is(err, os.ErrClosed) ||
		stderrors.Is(err, unix.EBADF) {
		return true
	}

	errStr := strings.ToLower(err.Error())
	return strings.Contains(errStr, "bad file descriptor") ||
		strings.Contains(errStr, "file descriptor") ||
		strings.Contains(errStr, "closed") ||
		strings.Contains(errStr, "key does not exist")
}

func (c *ControlPlane) markReady() {
	if c == nil {
		return
	}
	verifsim.Yield("control_plane.go:1224")
	c.readyOnce.Do(func() {
		verifsim.Yield("control_plane.go:1225")
		close(c.ready)
	})
}

func (c *ControlPlane) registerDNSListenerStop() {
	if c == nil {
		return
	}
	c.registerListenerStop(&c.deferFuncs, c.stopOwnedDNSListener)
}

func (c *ControlPlane) stopOwnedDNSListener() error {
	if c == nil {
		return nil
	}
	return c.controlPlaneDNSRuntime.stopOwnedDNSListener()
}

func (c *ControlPlane) closeOwnedDNSController() error {
	if c == nil {
		return nil
	}
	return c.controlPlaneDNSRuntime.closeOwnedDNSController()
}

func (c *ControlPlane) dnsControllerOption() *DnsControllerOption {
	if c == nil {
		return nil
	}
	return &DnsControllerOption{
		Log:			c.log,
		LifecycleContext:	c.ctx,
		ConcurrencyLimit:	0,
		CacheAccessCallback: func(cache *DnsCache) (err error) {
			if err = c.core.BatchUpdateDomainRouting(cache); err != nil {
				return fmt.Errorf("BatchUpdateDomainRouting: %w", err)
			}
			return nil
		},
		CacheDeleteCallback: func(cacheKey string, cache *DnsCache) (err error) {
			_ = cacheKey
			if err = c.core.BatchRemoveDomainRouting(cache); err != nil {
				return fmt.Errorf("BatchRemoveDomainRouting: %w", err)
			}
			return nil
		},
		NewCache: func(fqdn string, answers, ns, extra []dnsmessage.RR, deadline time.Time, originalDeadline time.Time) (cache *DnsCache, err error) {
			return &DnsCache{
				DomainBitmap:		c.routingMatcher.domainMatcher.MatchDomainBitmap(fqdn),
				NS:			ns,
				Extra:			extra,
				Answer:			answers,
				Deadline:		deadline,
				OriginalDeadline:	originalDeadline,
			}, nil
		},
		BestDialerChooser:	c.chooseBestDnsDialer,
		TimeoutExceedCallback: func(dialArgument *dialArgument, err error) {
			if commonerrors.IsIgnorableConnectionError(err) {
				return
			}
			c.penalizeDnsDialArg(dialArgument, time.Now())
			if dialArgument == nil || dialArgument.l4proto == consts.L4ProtoStr_UDP {
				return
			}
			dialArgument.bestDialer.ReportUnavailable(&dialer.NetworkType{
				L4Proto:		dialArgument.l4proto,
				IpVersion:		dialArgument.ipversion,
				IsDns:			true,
				UdpHealthDomain:	dialer.UdpHealthDomainDns,
			}, err)
		},
		FixedDomainTtl:		c.dnsFixedDomainTtl,
		OptimisticCache:	c.dnsOptimisticCache,
		OptimisticCacheTtl:	c.dnsOptimisticCacheTtl,
		MaxCacheSize:		c.dnsMaxCacheSize,
		IpVersionPrefer:	c.dnsIpVersionPrefer,
	}
}

func (c *ControlPlane) closePublishedListenerFiles() error {
	if c == nil {
		return nil
	}
	verifsim.Yield("control_plane.go:1310")

	c.listenerPublishMu.Lock()
	files := c.listenerFiles
	c.listenerFiles = nil
	c.listenerPublishMu.Unlock()

	var errs []error
	for _, f := range files {
		if f == nil {
			continue
		}
		if err := f.Close(); err != nil {
			errs = append(errs, err)
		}
	}
	return stderrors.Join(errs...)
}

func (c *ControlPlane) publishListenerSockets(listener *Listener) error {
	if c == nil || c.core == nil || listener == nil {
		return fmt.Errorf("publishListenerSockets: nil control plane or listener")
	}

	var (
		newFiles	[]*os.File
		err		error
	)
	closeNewFiles := func() {
		for _, f := range newFiles {
			if f != nil {
				_ = f.Close()
			}
		}
	}

	if listener.tcp4Listener != nil {
		tcp4File, e := dupTCPListenerFile(listener.tcp4Listener)
		if e != nil {
			return fmt.Errorf("failed to retrieve copy of the underlying TCP IPv4 listener file")
		}
		newFiles = append(newFiles, tcp4File)
		verifsim.Yield("control_plane.go:1350")
		if err = c.core.bpf.Load().ListenSocketMap.Update(consts.ZeroKey, uint64(tcp4File.Fd()), ebpf.UpdateAny); err != nil {
			closeNewFiles()
			return err
		}
	}
	if listener.tcp6Listener != nil {
		tcp6File, e := dupTCPListenerFile(listener.tcp6Listener)
		if e != nil {
			closeNewFiles()
			return fmt.Errorf("failed to retrieve copy of the underlying TCP IPv6 listener file")
		}
		newFiles = append(newFiles, tcp6File)
		verifsim.Yield("control_plane.go:1362")
		if err = c.core.bpf.Load().ListenSocketMap.Update(consts.TwoKey, uint64(tcp6File.Fd()), ebpf.UpdateAny); err != nil {
			closeNewFiles()
			return err
		}
	}
	if listener.packetConn != nil {
		udpFile, e := dupUDPPacketConnFile(listener.packetConn)
		if e != nil {
			closeNewFiles()
			return fmt.Errorf("failed to retrieve copy of the underlying UDP connection file")
		}
		newFiles = append(newFiles, udpFile)
		verifsim.Yield("control_plane.go:1374")
		if err = c.core.bpf.Load().ListenSocketMap.Update(consts.OneKey, uint64(udpFile.Fd()), ebpf.UpdateAny); err != nil {
			closeNewFiles()
			return err
		}
	}
	verifsim.Yield("control_plane.go:1380")

	c.listenerPublishMu.Lock()
	oldFiles := c.listenerFiles
	c.listenerFiles = newFiles
	c.listenerPublishMu.Unlock()
	for _, f := range oldFiles {
		if f != nil {
			_ = f.Close()
		}
	}
	return nil
}

func (c *ControlPlane) PublishListenerSockets(listener *Listener) error {
	return c.publishListenerSockets(listener)
}

func (c *ControlPlane) commitInterfaceBindings() error {
	if c == nil || c.core == nil {
		return nil
	}

	if len(c.lanInterface) > 0 {
		if c.autoConfigKernelParameter {
			if err := SetIpv4forward("1"); err != nil {
				c.log.WithError(err).Warnln("Failed to enable IPv4 forwarding; proxy functionality may be limited")
			}
			if err := setForwarding("all", consts.IpVersionStr_6, "1"); err != nil {
				c.log.WithError(err).Warnln("Failed to enable IPv6 forwarding; proxy functionality may be limited")
			}
		}
		c.lanInterface = common.Deduplicate(c.lanInterface)
		for _, ifname := range c.lanInterface {
			c.core.bindLan(ifname, c.autoConfigKernelParameter)
		}
	}

	if len(c.wanInterface) > 0 {
		if err := c.core.setupSkPidMonitor(); err != nil {
			c.log.WithError(err).Warnln("cgroup2 is not enabled; pname routing cannot be used")
		}
		if err := c.core.setupTCPRelayOffload(); err != nil {
			c.log.WithError(err).Debugln("TCP relay eBPF offload disabled")
		}
		for _, ifname := range c.wanInterface {
			if len(c.lanInterface) > 0 && c.autoConfigKernelParameter {
				acceptRa := sysctl.Keyf("net.ipv6.conf.%v.accept_ra", ifname)
				val, err := acceptRa.Get()
				if err == nil && val == "1" {
					if err := acceptRa.Set("2", false); err != nil {
						c.log.WithError(err).Warnf("Failed to set accept_ra=2 for %v; IPv6 autoconfig may not work as expected", ifname)
					}
				}
			}
			c.core.bindWan(ifname)
		}
	}

	if err := c.core.bindDaens(); err != nil {
		return fmt.Errorf("bindDaens: %w", err)
	}
	return nil
}

func (c *ControlPlane) replayDnsReloadCache() {
	if c == nil || c.dnsController == nil || c.pendingDnsReloadCache == nil {
		return
	}
	count := c.dnsController.RestoreReloadCache(c.pendingDnsReloadCache, c.routingMatcher.domainMatcher.MatchDomainBitmap, time.Now())
	if count > 0 {
		c.log.Infof("Restored %d DNS cache entries from previous control plane", count)
	}
	c.pendingDnsReloadCache = nil
}

func (c *ControlPlane) registerIncomingConnection(conn net.Conn) bool {
	if c == nil || conn == nil {
		return false
	}
	verifsim.Yield("control_plane.go:1458")
	if c.rejectNewConnections.Load() {
		_ = conn.Close()
		return false
	}
	verifsim.Yield("control_plane.go:1462")
	c.inConnections.Store(conn, struct{}{})
	verifsim.Yield("control_plane.go:1463")
	if c.rejectNewConnections.Load() {
		verifsim.Yield("control_plane.go:1464")
		c.inConnections.Delete(conn)
		_ = conn.Close()
		return false
	}
	return true
}

func (c *ControlPlane) unregisterIncomingConnection(conn net.Conn) {
	if c == nil || conn == nil {
		return
	}
	verifsim.Yield("control_plane.go:1475")
	c.inConnections.Delete(conn)
}

func (c *ControlPlane) CommitPreparedDatapath() error {
	if c == nil || !c.preparedDatapathCommit {
		return nil
	}
	if err := c.commitInterfaceBindings(); err != nil {
		return err
	}
	if c.routingKernspaceSnapshot != nil {
		c.log.Infoln("Loading routing rules into kernel space (BPF)...")
		verifsim.Yield("control_plane.go:1489")
		lpmIndices, err := c.routingKernspaceSnapshot.BuildKernspace(c.log, c.core.bpf.Load())
		if err != nil {
			return fmt.Errorf("routing kernspace snapshot: %w", err)
		}
		c.core.lpmTrieIndices = lpmIndices
	}
	if c.sharedBpfReload {
		verifsim.Yield("control_plane.go:1496")
		if err := clearReloadDomainRoutingMap(c.core.bpf.Load()); err != nil {
			return fmt.Errorf("clearReloadDomainRoutingMap: %w", err)
		}
	}
	c.replayDnsReloadCache()
	c.startConnStateJanitor()
	c.preparedDatapathCommit = false
	return nil
}

func (c *ControlPlane) RebuildReloadDatapath() error {
	if c == nil || c.routingKernspaceSnapshot == nil || c.core == nil || c.core.PeekBpf() == nil {
		return nil
	}
	c.log.Warnln("[Reload] Rebuilding previous generation datapath after staged handoff failure")
	verifsim.Yield("control_plane.go:1513")
	lpmIndices, err := c.routingKernspaceSnapshot.BuildKernspace(c.log, c.core.bpf.Load())
	if err != nil {
		return fmt.Errorf("rebuild routing kernspace: %w", err)
	}
	c.ReplaceLpmIndices(lpmIndices)
	verifsim.Yield("control_plane.go:1518")
	if err := clearReloadDomainRoutingMap(c.core.bpf.Load()); err != nil {
		return fmt.Errorf("rebuild clearReloadDomainRoutingMap: %w", err)
	}
	cache := c.CloneDnsCache()
	c.pendingDnsReloadCache = cache
	c.replayDnsReloadCache()
	return nil
}

func (c *ControlPlane) dnsUpstreamReadyCallback(dnsUpstream *dns.Upstream) (err error) {
	if c != nil {
		c.noteDNSUpstreamAvailable()
	}
	{
		verifsim.Yield("control_plane.go:1532")
		_vc8 := c.ctx.Done()
		_vc9 := c.ready
		_vi10 := -1
		for _, _vo11 := range verifsim.SelectOrder("control_plane.go:1532", 2) {
			switch _vo11 {
			case 0:
				select {
				case <-_vc8:
					_vi10 = 0
				default:
				}
			case 1:
				select {
				case <-_vc9:
					_vi10 = 1
				default:
				}
			}
			if _vi10 >= 0 {
				break
			}
		}
		if _vi10 < 0 {
			select {
			case <-_vc8:
				_vi10 = 0
			case <-_vc9:
				_vi10 = 1
			}
			verifsim.Yield("control_plane.go:1532+")
		}
		switch _vi10 {
		case 0:
			return nil
		case 1:
		default:
			panic("verifsim: select dispatch: no case chosen")
		}
	}
	verifsim.Yield("control_plane.go:1539")

	c.onceNetworkReady.Do(func() {
		for _, out := range c.outbounds {
			for _, d := range out.Dialers {
				d.NotifyCheck()
			}
		}
	})
	if dnsUpstream == nil {
		return nil
	}

	deadline := time.Now().Add(time.Hour * 24 * 365 * 10)
	fqdn := dnsmessage.CanonicalName(dnsUpstream.Hostname)

	if dnsUpstream.Ip4.IsValid() {
		typ := dnsmessage.TypeA
		answers := []dnsmessage.RR{&dnsmessage.A{
			Hdr: dnsmessage.RR_Header{
				Name:	dnsmessage.CanonicalName(fqdn),
				Rrtype:	typ,
				Class:	dnsmessage.ClassINET,
				Ttl:	0,
			},
			A:	dnsUpstream.Ip4.AsSlice(),
		}}
		ttl := max(int(time.Until(deadline).Seconds()), 0)
		if err = c.dnsController.UpdateDnsCacheTtl(dnsUpstream.Hostname, typ, answers, nil, nil, ttl); err != nil {
			return err
		}
	}

	if dnsUpstream.Ip6.IsValid() {
		typ := dnsmessage.TypeAAAA
		answers := []dnsmessage.RR{&dnsmessage.AAAA{
			Hdr: dnsmessage.RR_Header{
				Name:	dnsmessage.CanonicalName(fqdn),
				Rrtype:	typ,
				Class:	dnsmessage.ClassINET,
				Ttl:	0,
			},
			AAAA:	dnsUpstream.Ip6.AsSlice(),
		}}
		ttl := max(int(time.Until(deadline).Seconds()), 0)
		if err = c.dnsController.UpdateDnsCacheTtl(dnsUpstream.Hostname, typ, answers, nil, nil, ttl); err != nil {
			return err
		}
	}
	return nil
}

func (c *ControlPlane) ActivateCheck() {
	for _, g := range c.outbounds {

		if _, referenced := c.referencedOutbounds[g.Name]; !referenced {
			c.log.Debugf("Skip health check for unreferenced outbound: %v", g.Name)
			continue
		}
		for _, d := range g.Dialers {

			d.ActivateCheck()
		}
	}
}

func (c *ControlPlane) OnHealthCheckSuccess() {
	ClearFailedQuicDcids()
}

func (c *ControlPlane) ChooseDialTarget(outbound consts.OutboundIndex, dst netip.AddrPort, domain string) (dialTarget string, shouldReroute bool, dialIp bool) {
	dialMode := consts.DialMode_Ip

	if !outbound.IsReserved() && domain != "" {
		switch c.dialMode {
		case consts.DialMode_Domain:

			if isIPLikeDomain(domain) {
				break
			}
			if c.dnsController.HasDnsKnowledge(c.dnsController.cacheKey(domain, common.AddrToDnsType(dst.Addr()))) {

				dialMode = consts.DialMode_Domain
				shouldReroute = true
			} else {
				if known, real := c.lookupRealDomainCache(domain); known {
					if real {
						dialMode = consts.DialMode_Domain
						shouldReroute = true
					}
				} else {

					c.triggerRealDomainProbe(domain)
				}
			}
		case consts.DialMode_DomainCao:
			shouldReroute = true
			fallthrough
		case consts.DialMode_DomainPlus:
			dialMode = consts.DialMode_Domain
		}
	}

	switch dialMode {
	case consts.DialMode_Ip:
		dialTarget = dst.String()
		dialIp = true
	case consts.DialMode_Domain:
		if strings.HasPrefix(domain, "[") && strings.HasSuffix(domain, "]") {

			domain = domain[1 : len(domain)-1]
		}
		if _, err := netip.ParseAddr(domain); err == nil {

			dialTarget = net.JoinHostPort(domain, strconv.Itoa(int(dst.Port())))
			dialIp = true

		} else if _, _, err := net.SplitHostPort(domain); err == nil {

			dialTarget = domain
		} else {
			dialTarget = net.JoinHostPort(domain, strconv.Itoa(int(dst.Port())))
		}
		if c.log.IsLevelEnabled(logrus.DebugLevel) {
			c.log.WithFields(logrus.Fields{
				"from":	dst.String(),
				"to":	dialTarget,
			}).Debugln("Rewrite dial target to domain")
		}
	}
	return dialTarget, shouldReroute, dialIp
}

func (c *ControlPlane) lookupRealDomainCache(domain string) (known bool, real bool) {
	verifsim.Yield("control_plane.go:1679")

	c.muRealDomainSet.RLock()
	hit := c.realDomainSet.TestString(domain)
	c.muRealDomainSet.RUnlock()
	if hit {
		return true, true
	}

	now := time.Now()
	verifsim.Yield("control_plane.go:1688")
	if v, ok := c.realDomainNegSet.Load(domain); ok {
		expiresAt, _ := v.(int64)
		if now.UnixNano() < expiresAt {
			return true, false
		}
		verifsim.Yield("control_plane.go:1693")
		c.realDomainNegSet.Delete(domain)
	}
	return false, false
}

func (c *ControlPlane) resolveBootstrapIp46(ctx context.Context, host string, network string) (*netutils.Ip46, error, error) {
	if len(c.bootstrapResolvers) == 0 {
		err := fmt.Errorf("bootstrap resolver is not configured")
		return &netutils.Ip46{}, err, err
	}
	return c.resolveIp46WithBootstrapResolvers(ctx, host, network, false, resolveIp46ForBootstrap)
}

func (c *ControlPlane) triggerRealDomainProbe(domain string) {
	if domain == "" || isIPLikeDomain(domain) {
		return
	}
	if known, _ := c.lookupRealDomainCache(domain); known {
		return
	}
	verifsim.Go("control_plane.go:1713", func() {
		verifsim.Yield("control_plane.go:1714")
		_, _, _ = c.realDomainProbeS.Do(domain, func() (any, error) {
			return c.probeAndUpdateRealDomain(domain), nil
		})
		verifsim.Yield("control_plane.go:1714+")
	})
}

func (c *ControlPlane) probeAndUpdateRealDomain(domain string) bool {
	if known, real := c.lookupRealDomainCache(domain); known {
		return real
	}

	now := time.Now()

	ctx, cancel := context.WithTimeout(c.ctx, realDomainProbeTimeout)
	defer cancel()

	if len(c.bootstrapResolvers) == 0 {

		return false
	}

	ip46, err4, err6 := c.resolveIp46WithBootstrapResolvers(
		ctx,
		domain,
		common.MagicNetwork("udp", c.soMarkFromDae, c.mptcp),
		true,
		resolveIp46ForRealDomainProbe,
	)
	if err4 != nil && err6 != nil {

		return false
	}
	if !ip46.Ip4.IsValid() && !ip46.Ip6.IsValid() {
		verifsim.Yield("control_plane.go:1747")
		c.realDomainNegSet.Store(domain, now.Add(realDomainNegativeCacheTTL).UnixNano())
		return false
	}
	verifsim.Yield("control_plane.go:1751")

	c.muRealDomainSet.Lock()
	c.realDomainSet.AddString(domain)
	c.muRealDomainSet.Unlock()
	verifsim.Yield("control_plane.go:1754")
	c.realDomainNegSet.Delete(domain)
	return true
}

func (c *ControlPlane) resolveIp46WithBootstrapResolvers(
	ctx context.Context,
	host string,
	network string,
	race bool,
	resolve func(context.Context, netproxy.Dialer, netip.AddrPort, string, string, bool) (*netutils.Ip46, error, error),
) (*netutils.Ip46, error, error) {
	if len(c.bootstrapResolvers) == 0 {
		err := fmt.Errorf("bootstrap resolver is not configured")
		return &netutils.Ip46{}, err, err
	}

	var firstErr4 error
	var firstErr6 error
	var lastNoRecord *netutils.Ip46
	var lastNoRecordErr4 error
	var lastNoRecordErr6 error
	for _, resolver := range c.bootstrapResolvers {
		ip46, err4, err6 := resolve(ctx, direct.SymmetricDirect, resolver, host, network, race)
		if ip46 == nil {
			ip46 = &netutils.Ip46{}
		}
		if ip46.Ip4.IsValid() || ip46.Ip6.IsValid() {
			return ip46, err4, err6
		}
		if err4 == nil || err6 == nil {
			lastNoRecord = ip46
			lastNoRecordErr4 = err4
			lastNoRecordErr6 = err6
			continue
		}
		if firstErr4 == nil {
			firstErr4 = err4
		}
		if firstErr6 == nil {
			firstErr6 = err6
		}
	}
	if lastNoRecord != nil {
		return lastNoRecord, lastNoRecordErr4, lastNoRecordErr6
	}
	if firstErr4 == nil {
		firstErr4 = fmt.Errorf("bootstrap resolver failed")
	}
	if firstErr6 == nil {
		firstErr6 = firstErr4
	}
	return &netutils.Ip46{}, firstErr4, firstErr6
}

func (c *ControlPlane) cleanupNegativeCaches(now time.Time) {
	nowNano := now.UnixNano()
	verifsim.Yield("control_plane.go:1812")

	c.realDomainNegSet.Range(func(key, value interface{}) bool {
		expiresAt, ok := value.(int64)
		if !ok || nowNano >= expiresAt {
			verifsim.Yield("control_plane.go:1815")
			c.realDomainNegSet.Delete(key)
		}
		return true
	})

	c.failedQuicDcidCache.CleanupExpired(now)

	c.cleanupTcpSniffNegative(now)
}

type dnsDialerSnapshotKey struct {
	realSrc		netip.AddrPort
	upstream	string
	upstreamIp4	netip.Addr
	upstreamIp6	netip.Addr
	routingPname	[16]uint8
	routingMac	[6]uint8
	routingDscp	uint8
}

type dnsDialerSnapshotEntry struct {
	expiresAtUnixNano	int64
	dialArg			dialArgument
}

type dnsDialerPenaltyKey struct {
	dialer		*dialer.Dialer
	target		netip.AddrPort
	l4proto		consts.L4ProtoStr
	ipversion	consts.IpVersionStr
}

type dnsDialerPenaltyEntry struct {
	expiresAtUnixNano int64
}

type dnsDialerCandidate struct {
	dialArg	*dialArgument
	latency	time.Duration
}

func pickBetterDnsDialerCandidate(best, candidate *dnsDialerCandidate) *dnsDialerCandidate {
	if candidate == nil {
		return best
	}
	if best == nil || candidate.latency < best.latency {
		return candidate
	}
	return best
}

func chooseDnsDialerCandidate(preferred, penalized *dnsDialerCandidate) (*dnsDialerCandidate, bool) {
	if preferred != nil {
		return preferred, false
	}
	if penalized != nil {
		return penalized, true
	}
	return nil, false
}

func buildDnsDialerSnapshotKey(req *udpRequest, upstream *dns.Upstream) (dnsDialerSnapshotKey, bool) {
	if req == nil || upstream == nil {
		return dnsDialerSnapshotKey{}, false
	}

	realSrc := req.realSrc

	if req.realDst.Port() == 53 {
		realSrc = netip.AddrPortFrom(req.realSrc.Addr(), 0)
	}

	key := dnsDialerSnapshotKey{
		realSrc:	realSrc,
		upstream:	upstream.String(),
		upstreamIp4:	upstream.Ip4,
		upstreamIp6:	upstream.Ip6,
	}

	if req.routingResult != nil {
		key.routingPname = req.routingResult.Pname
		key.routingMac = req.routingResult.Mac
		key.routingDscp = req.routingResult.Dscp
	}

	return key, true
}

func (c *ControlPlane) loadDnsDialerSnapshot(key dnsDialerSnapshotKey, now time.Time) (*dialArgument, bool) {
	if dnsDialerSnapshotTTL <= 0 {
		return nil, false
	}
	verifsim.Yield("control_plane.go:1912")

	v, ok := c.dnsDialerSnapshot.Load(key)
	if !ok {
		return nil, false
	}

	entry, ok := v.(*dnsDialerSnapshotEntry)
	if !ok {
		verifsim.Yield("control_plane.go:1919")
		c.dnsDialerSnapshot.Delete(key)
		return nil, false
	}

	if entry.expiresAtUnixNano <= now.UnixNano() {
		verifsim.Yield("control_plane.go:1924")
		c.dnsDialerSnapshot.CompareAndDelete(key, entry)
		return nil, false
	}

	dialArg := entry.dialArg
	if c.isDnsDialArgPenalized(&dialArg, now) {
		verifsim.Yield("control_plane.go:1930")
		c.dnsDialerSnapshot.CompareAndDelete(key, entry)
		return nil, false
	}
	return &dialArg, true
}

func (c *ControlPlane) storeDnsDialerSnapshot(key dnsDialerSnapshotKey, dialArg *dialArgument, now time.Time) {
	if dnsDialerSnapshotTTL <= 0 || dialArg == nil {
		return
	}
	entry := &dnsDialerSnapshotEntry{
		expiresAtUnixNano:	now.Add(dnsDialerSnapshotTTL).UnixNano(),
		dialArg:		*dialArg,
	}
	verifsim.Yield("control_plane.go:1944")
	c.dnsDialerSnapshot.Store(key, entry)
}

func (c *ControlPlane) cleanupDnsDialerSnapshot(now time.Time) {
	nowNano := now.UnixNano()
	verifsim.Yield("control_plane.go:1949")
	c.dnsDialerSnapshot.Range(func(key, value any) bool {
		entry, ok := value.(*dnsDialerSnapshotEntry)
		if !ok {
			verifsim.Yield("control_plane.go:1952")
			c.dnsDialerSnapshot.Delete(key)
			return true
		}
		if entry.expiresAtUnixNano <= nowNano {
			verifsim.Yield("control_plane.go:1956")
			c.dnsDialerSnapshot.CompareAndDelete(key, entry)
		}
		return true
	})
}

func (c *ControlPlane) cleanupDnsDialerPenalty(now time.Time) {
	nowNano := now.UnixNano()
	verifsim.Yield("control_plane.go:1964")
	c.dnsDialerPenalty.Range(func(key, value any) bool {
		entry, ok := value.(*dnsDialerPenaltyEntry)
		if !ok {
			verifsim.Yield("control_plane.go:1967")
			c.dnsDialerPenalty.Delete(key)
			return true
		}
		if entry.expiresAtUnixNano <= nowNano {
			verifsim.Yield("control_plane.go:1971")
			c.dnsDialerPenalty.CompareAndDelete(key, entry)
		}
		return true
	})
}

func buildDnsDialerPenaltyKey(dialArg *dialArgument) (dnsDialerPenaltyKey, bool) {
	if dialArg == nil || dialArg.bestDialer == nil || !dialArg.bestTarget.IsValid() {
		return dnsDialerPenaltyKey{}, false
	}
	return dnsDialerPenaltyKey{
		dialer:		dialArg.bestDialer,
		target:		dialArg.bestTarget,
		l4proto:	dialArg.l4proto,
		ipversion:	dialArg.ipversion,
	}, true
}

func (c *ControlPlane) isDnsDialArgPenalized(dialArg *dialArgument, now time.Time) bool {
	key, ok := buildDnsDialerPenaltyKey(dialArg)
	if !ok {
		return false
	}
	verifsim.Yield("control_plane.go:1994")
	value, ok := c.dnsDialerPenalty.Load(key)
	if !ok {
		return false
	}
	entry, ok := value.(*dnsDialerPenaltyEntry)
	if !ok {
		verifsim.Yield("control_plane.go:2000")
		c.dnsDialerPenalty.Delete(key)
		return false
	}
	if entry.expiresAtUnixNano <= now.UnixNano() {
		verifsim.Yield("control_plane.go:2004")
		c.dnsDialerPenalty.CompareAndDelete(key, entry)
		return false
	}
	return true
}

func (c *ControlPlane) penalizeDnsDialArg(dialArg *dialArgument, now time.Time) {
	if dnsDialerPenaltyTTL <= 0 {
		return
	}
	key, ok := buildDnsDialerPenaltyKey(dialArg)
	if !ok {
		return
	}
	verifsim.Yield("control_plane.go:2018")
	c.dnsDialerPenalty.Store(key, &dnsDialerPenaltyEntry{
		expiresAtUnixNano: now.Add(dnsDialerPenaltyTTL).UnixNano(),
	})
}

func (c *ControlPlane) startRealDomainNegJanitor() {
	verifsim.Go("control_plane.go:2024", func() {
		ticker := time.NewTicker(realDomainNegJanitorInterval)
		defer ticker.Stop()
		defer close(c.negJanitorDone)
		for {
			{
				verifsim.Yield("control_plane.go:2029")
				_vc12 := c.negJanitorStop
				_vc13 := c.ctx.Done()
				_vc14 := ticker.C
				var _vr15 = verifsim.ChanZero(_vc14)
				_vi16 := -1
				for _, _vo17 := range verifsim.SelectOrder("control_plane.go:2029", 3) {
					switch _vo17 {
					case 0:
						select {
						case <-_vc12:
							_vi16 = 0
						default:
						}
					case 1:
						select {
						case <-_vc13:
							_vi16 = 1
						default:
						}
					case 2:
						select {
						case _vr15 = <-_vc14:
							_vi16 = 2
						default:
						}
					}
					if _vi16 >= 0 {
						break
					}
				}
				if _vi16 < 0 {
					select {
					case <-_vc12:
						_vi16 = 0
					case <-_vc13:
						_vi16 = 1
					case _vr15 = <-_vc14:
						_vi16 = 2
					}
					verifsim.Yield("control_plane.go:2029+")
				}
				switch _vi16 {
				case 0:
					return
				case 1:

					return
				case 2:
					now := _vr15
					c.cleanupNegativeCaches(now)
					c.cleanupDnsDialerSnapshot(now)
					c.cleanupDnsDialerPenalty(now)
				default:
					panic("verifsim: select dispatch: no case chosen")
				}
			}

		}
	})
}

func (c *ControlPlane) stopRealDomainNegJanitor() {
	verifsim.Yield("control_plane.go:2044")
	c.negJanitorOnce.Do(func() {
		if c.negJanitorStop != nil {
			verifsim.Yield("control_plane.go:2046")
			close(c.negJanitorStop)
		}
		if c.negJanitorDone != nil {
			timer := time.NewTimer(gracefulShutdownWaitTimeout)
			defer timer.Stop()
			{
				verifsim.Yield("control_plane.go:2051")
				_vc18 := c.negJanitorDone
				_vc19 := timer.C
				_vi20 := -1
				for _, _vo21 := range verifsim.SelectOrder("control_plane.go:2051", 2) {
					switch _vo21 {
					case 0:
						select {
						case <-_vc18:
							_vi20 = 0
						default:
						}
					case 1:
						select {
						case <-_vc19:
							_vi20 = 1
						default:
						}
					}
					if _vi20 >= 0 {
						break
					}
				}
				if _vi20 < 0 {
					select {
					case <-_vc18:
						_vi20 = 0
					case <-_vc19:
						_vi20 = 1
					}
					verifsim.Yield("control_plane.go:2051+")
				}
				switch _vi20 {
				case 0:
				case 1:
					c.log.Warn("stopRealDomainNegJanitor: timeout waiting for janitor to exit")
				default:
					panic("verifsim: select dispatch: no case chosen")
				}
			}

		}
	})
}

func (c *ControlPlane) startConnStateJanitor() {
	verifsim.Yield("control_plane.go:2065")
	if c == nil || !c.connStateJanitorStarted.CompareAndSwap(false, true) {
		return
	}
	verifsim.Go("control_plane.go:2068", func() {
		ticker := time.NewTicker(connStateJanitorPressureInterval)
		defer ticker.Stop()
		defer close(c.connStateJanitorDone)

		var (
			lastConnCleanup		time.Time
			lastRedirectCleanup	time.Time
			lastCookiePidCleanup	time.Time
			lastRoutingHandoff	time.Time
			lastHealthCheck		time.Time
			pressureState		connStateJanitorPressureState
		)

		for {
			{
				verifsim.Yield("control_plane.go:2083")
				_vc22 := c.connStateJanitorStop
				_vc23 := c.ctx.Done()
				_vc24 := ticker.C
				var _vr25 = verifsim.ChanZero(_vc24)
				_vi26 := -1
				for _, _vo27 := range verifsim.SelectOrder("control_plane.go:2083", 3) {
					switch _vo27 {
					case 0:
						select {
						case <-_vc22:
							_vi26 = 0
						default:
						}
					case 1:
						select {
						case <-_vc23:
							_vi26 = 1
						default:
						}
					case 2:
						select {
						case _vr25 = <-_vc24:
							_vi26 = 2
						default:
						}
					}
					if _vi26 >= 0 {
						break
					}
				}
				if _vi26 < 0 {
					select {
					case <-_vc22:
						_vi26 = 0
					case <-_vc23:
						_vi26 = 1
					case _vr25 = <-_vc24:
						_vi26 = 2
					}
					verifsim.Yield("control_plane.go:2083+")
				}
				switch _vi26 {
				case 0:
					return
				case 1:

					return
				case 2:
					now := _vr25
					bpf := c.currentBpf()

					var udpOverflow, tcpOverflow uint64
					overflowDelta := false
					if bpf != nil && bpf.BpfStatsMap != nil {
						udpOverflow, tcpOverflow = c.readMapOverflowCounters(bpf.BpfStatsMap)
						overflowDelta = udpOverflow > pressureState.lastUdpOverflow ||
							tcpOverflow > pressureState.lastTcpOverflow
						pressureState.lastUdpOverflow = udpOverflow
						pressureState.lastTcpOverflow = tcpOverflow
					}
					if overflowDelta {
						pressureState.active = true
						pressureState.belowThresholdRounds = 0
					}

					connCleanupInterval := connStateJanitorSteadyInterval
					redirectCleanupInterval := redirectTrackJanitorSteadyInterval
					if pressureState.active {
						connCleanupInterval = connStateJanitorPressureInterval
						redirectCleanupInterval = redirectTrackJanitorPressureInterval
					}

					if lastRedirectCleanup.IsZero() || now.Sub(lastRedirectCleanup) >= redirectCleanupInterval {
						c.cleanupRedirectTrackMap()
						lastRedirectCleanup = now
					}
					if lastCookiePidCleanup.IsZero() || now.Sub(lastCookiePidCleanup) >= redirectCleanupInterval {
						c.cleanupCookiePidMap()
						lastCookiePidCleanup = now
					}
					routingHandoffInterval := routingHandoffSteadyInterval
					if pressureState.active {
						routingHandoffInterval = routingHandoffPressureInterval
					}
					if lastRoutingHandoff.IsZero() || now.Sub(lastRoutingHandoff) >= routingHandoffInterval {
						c.cleanupRoutingHandoffMap()
						lastRoutingHandoff = now
					}

					if lastConnCleanup.IsZero() || now.Sub(lastConnCleanup) >= connCleanupInterval {
						udpStats, tcpStats := c.cleanupConnStateMap(pressureState.active)

						maxUsagePercent := 0
						if udpStats.maxEntries > 0 {
							maxUsagePercent = (udpStats.entries + tcpStats.entries) * 100 / udpStats.maxEntries
						}
						pressureState = updateConnStateJanitorPressure(pressureState, overflowDelta, maxUsagePercent)
						lastConnCleanup = now
					}

					if lastHealthCheck.IsZero() || now.Sub(lastHealthCheck) >= 5*time.Second {
						c.checkBpfMapHealth(udpOverflow, tcpOverflow)
						lastHealthCheck = now
					}
				default:
					panic("verifsim: select dispatch: no case chosen")
				}
			}

		}
	})
}

func (c *ControlPlane) RunReloadRetirementCleanup(staleBeforeNs uint64) {
	if c == nil || staleBeforeNs == 0 {
		return
	}
	verifsim.Yield("control_plane.go:2154")

	c.connStateCleanupMu.Lock()
	verifsim.Locked()
	redirectDeleted := c.cleanupRedirectTrackMapBeforeLocked(staleBeforeNs)
	cookieDeleted := c.cleanupCookiePidMapBeforeLocked(staleBeforeNs)
	routingHandoffDeleted := c.cleanupRoutingHandoffMapBeforeLocked(staleBeforeNs)
	udpStats, tcpStats := c.cleanupConnStateMapBeforeLocked(true, staleBeforeNs)
	c.connStateCleanupMu.Unlock()
	verifsim.Unlocked()

	if c.log == nil {
		return
	}
	if redirectDeleted == 0 && cookieDeleted == 0 && routingHandoffDeleted == 0 &&
		udpStats.deleted == 0 && tcpStats.deleted == 0 {
		if c.log.IsLevelEnabled(logrus.DebugLevel) {
			c.log.Debugln("[Reload] No stale datapath state remained after generation retirement")
		}
		return
	}
	c.log.WithFields(logrus.Fields{
		"redirect_deleted":		redirectDeleted,
		"cookie_pid_deleted":		cookieDeleted,
		"routing_handoff_deleted":	routingHandoffDeleted,
		"udp_conn_deleted":		udpStats.deleted,
		"tcp_conn_deleted":		tcpStats.deleted,
	}).Infoln("[Reload] Cleaned stale datapath state after generation retirement")
}

func (c *ControlPlane) stopConnStateJanitor() {
	verifsim.Yield("control_plane.go:2183")
	if c == nil || !c.connStateJanitorStarted.Load() {
		return
	}
	verifsim.Yield("control_plane.go:2186")
	verifsim.OnceDo(&c.connStateJanitorOnce, func() {
		if c.connStateJanitorStop != nil {
			verifsim.Yield("control_plane.go:2188")
			close(c.connStateJanitorStop)
		}
		if c.connStateJanitorDone != nil {
			timer := time.NewTimer(gracefulShutdownWaitTimeout)
			defer timer.Stop()
			{
				verifsim.Yield("control_plane.go:2193")
				_vc28 := c.connStateJanitorDone
				_vc29 := timer.C
				_vi30 := -1
				for _, _vo31 := range verifsim.SelectOrder("control_plane.go:2193", 2) {
					switch _vo31 {
					case 0:
						select {
						case <-_vc28:
							_vi30 = 0
						default:
						}
					case 1:
						select {
						case <-_vc29:
							_vi30 = 1
						default:
						}
					}
					if _vi30 >= 0 {
						break
					}
				}
				if _vi30 < 0 {
					select {
					case <-_vc28:
						_vi30 = 0
					case <-_vc29:
						_vi30 = 1
					}
					verifsim.Yield("control_plane.go:2193+")
				}
				switch _vi30 {
				case 0:
				case 1:
					c.log.Warn("stopConnStateJanitor: timeout waiting for janitor to exit")
				default:
					panic("verifsim: select dispatch: no case chosen")
				}
			}

		}
	})
}

const redirectTrackTimeout = 5 * time.Minute

func (c *ControlPlane) cleanupRedirectTrackMap() int {
	verifsim.Yield("control_plane.go:2213")
	c.connStateCleanupMu.Lock()
	verifsim.Locked()
	defer verifsim.DeferUnlock(c.connStateCleanupMu.Unlock)
	return c.cleanupRedirectTrackMapBeforeLocked(0)
}

func (c *ControlPlane) cleanupRedirectTrackMapBeforeLocked(staleBeforeNs uint64) int {
	{
		verifsim.Yield("control_plane.go:2220")
		_vc32 := c.connStateJanitorStop
		_vi33 := -1
		for _, _vo34 := range verifsim.SelectOrder("control_plane.go:2220", 1) {
			switch _vo34 {
			case 0:
				select {
				case <-_vc32:
					_vi33 = 0
				default:
				}
			}
			if _vi33 >= 0 {
				break
			}
		}
		switch _vi33 {
		case 0:
			return 0
		default:
		}
	}

	bpf := c.currentBpf()
	if bpf == nil || bpf.RedirectTrack == nil {
		return 0
	}

	var ts unix.Timespec
	if err := unix.ClockGettime(unix.CLOCK_MONOTONIC, &ts); err != nil {
		c.log.Errorf("cleanupRedirectTrackMap: failed to get monotonic time: %v", err)
		return 0
	}
	nowNano := ts.Nano()

	timeoutNano := redirectTrackTimeout.Nanoseconds()

	scratch := c.connStateJanitorScratch()
	keysToDelete := takeJanitorDeleteScratch(scratch.redirectDelete)
	totalEntries := 0
	maxAge := int64(0)
	totalAge := int64(0)

	keysOut := ensureJanitorLookupScratch(scratch.redirectKeys)
	valuesOut := ensureJanitorLookupScratch(scratch.redirectValues)
	defer func() {
		scratch.redirectDelete = keepJanitorDeleteScratch(keysToDelete)
		scratch.redirectKeys = keysOut
		scratch.redirectValues = valuesOut
	}()

	var cursor ebpf.MapBatchCursor
	for {
		count, err := bpf.RedirectTrack.BatchLookup(&cursor, keysOut, valuesOut, nil)
		if count > 0 {
			for i := range count {
				key := keysOut[i]
				value := valuesOut[i]
				totalEntries++
				age := nowNano - int64(value.LastSeenNs)
				totalAge += age
				if age > maxAge {
					maxAge = age
				}
				if age > timeoutNano ||
					(staleBeforeNs > 0 && (value.LastSeenNs == 0 || value.LastSeenNs < staleBeforeNs)) {
					keysToDelete = append(keysToDelete, key)
				}
			}
		}
		if err != nil {
			if !isIgnorableBatchLookupErr(err) {
				c.log.Errorf("cleanupRedirectTrackMap: BatchLookup error: %v", err)
			}
			break
		}
	}

	if len(keysToDelete) > 0 {
		if _, err := BpfMapBatchDelete(bpf.RedirectTrack, keysToDelete); err != nil {
			c.log.Debugf("cleanupRedirectTrackMap: batch delete error: %v", err)
		}
	}

	if len(keysToDelete) > 0 {
		c.log.Debugf("cleanupRedirectTrackMap: removed %d entries", len(keysToDelete))
	}

	// Alert if map usage is high
	const redirectTrackCapacity = 65536
	if totalEntries > 0 {
		usagePercent := float64(totalEntries) / float64(redirectTrackCapacity) * 100
		if usagePercent > 90 {
			c.log.Warnf("cleanupRedirectTrackMap: map at %.1f%% capacity (%d entries)",
				usagePercent, totalEntries)
		}
	}
	return len(keysToDelete)
}

func (c *ControlPlane) cleanupCookiePidMap() int {
	verifsim.Yield("control_plane.go:2307")
	c.connStateCleanupMu.Lock()
	verifsim.Locked()
	defer verifsim.DeferUnlock(c.connStateCleanupMu.Unlock)
	return c.cleanupCookiePidMapBeforeLocked(0)
}

func (c *ControlPlane) cleanupCookiePidMapBeforeLocked(staleBeforeNs uint64) int {
	{
		verifsim.Yield("control_plane.go:2313")
		_vc35 := c.connStateJanitorStop
		_vi36 := -1
		for _, _vo37 := range verifsim.SelectOrder("control_plane.go:2313", 1) {
			switch _vo37 {
			case 0:
				select {
				case <-_vc35:
					_vi36 = 0
				default:
				}
			}
			if _vi36 >= 0 {
				break
			}
		}
		switch _vi36 {
		case 0:
			return 0
		default:
		}
	}

	bpf := c.currentBpf()
	if bpf == nil || bpf.CookiePidMap == nil {
		return 0
	}

	var ts unix.Timespec
	if err := unix.ClockGettime(unix.CLOCK_MONOTONIC, &ts); err != nil {
		c.log.Errorf("cleanupCookiePidMap: failed to get monotonic time: %v", err)
		return 0
	}
	nowNano := ts.Nano()
	timeoutNano := cookiePidMapTimeout.Nanoseconds()

	scratch := c.connStateJanitorScratch()
	keysToDelete := takeJanitorDeleteScratch(scratch.cookiePidDelete)
	keysOut := ensureJanitorLookupScratch(scratch.cookiePidKeys)
	valuesOut := ensureJanitorLookupScratch(scratch.cookiePidValues)
	totalEntries := 0
	defer func() {
		scratch.cookiePidDelete = keepJanitorDeleteScratch(keysToDelete)
		scratch.cookiePidKeys = keysOut
		scratch.cookiePidValues = valuesOut
	}()

	var cursor ebpf.MapBatchCursor
	for {
		count, err := bpf.CookiePidMap.BatchLookup(&cursor, keysOut, valuesOut, nil)
		if count > 0 {
			for i := range count {
				totalEntries++
				age := nowNano - int64(valuesOut[i].LastSeenNs)
				if age > timeoutNano ||
					(staleBeforeNs > 0 && (valuesOut[i].LastSeenNs == 0 || valuesOut[i].LastSeenNs < staleBeforeNs)) {
					keysToDelete = append(keysToDelete, keysOut[i])
				}
			}
		}
		if err != nil {
			if !isIgnorableBatchLookupErr(err) {
				c.log.Errorf("cleanupCookiePidMap: BatchLookup error: %v", err)
			}
			break
		}
	}

	if len(keysToDelete) > 0 {
		if _, err := BpfMapBatchDelete(bpf.CookiePidMap, keysToDelete); err != nil {
			c.log.Debugf("cleanupCookiePidMap: batch delete error: %v", err)
		}
		c.log.Debugf("cleanupCookiePidMap: removed %d entries", len(keysToDelete))
	}

	maxEntries := bpf.CookiePidMap.MaxEntries()
	if totalEntries > 0 && maxEntries > 0 {
		usagePercent := float64(totalEntries) / float64(maxEntries) * 100
		if usagePercent > 90 {
			c.log.Warnf("cleanupCookiePidMap: map at %.1f%% capacity (%d entries)", usagePercent, totalEntries)
		}
	}
	return len(keysToDelete)
}

func (c *ControlPlane) cleanupRoutingHandoffMap() int {
	verifsim.Yield("control_plane.go:2385")
	c.connStateCleanupMu.Lock()
	verifsim.Locked()
	defer verifsim.DeferUnlock(c.connStateCleanupMu.Unlock)
	return c.cleanupRoutingHandoffMapBeforeLocked(0)
}

func (c *ControlPlane) cleanupRoutingHandoffMapBeforeLocked(staleBeforeNs uint64) int {
	{
		verifsim.Yield("control_plane.go:2391")
		_vc38 := c.connStateJanitorStop
		_vi39 := -1
		for _, _vo40 := range verifsim.SelectOrder("control_plane.go:2391", 1) {
			switch _vo40 {
			case 0:
				select {
				case <-_vc38:
					_vi39 = 0
				default:
				}
			}
			if _vi39 >= 0 {
				break
			}
		}
		switch _vi39 {
		case 0:
			return 0
		default:
		}
	}

	bpf := c.currentBpf()
	if bpf == nil || bpf.RoutingHandoffMap == nil {
		return 0
	}

	nowNano, err := monotonicNowNano()
	if err != nil {
		c.log.Errorf("cleanupRoutingHandoffMap: failed to get monotonic time: %v", err)
		return 0
	}

	scratch := c.connStateJanitorScratch()
	keysToDelete := takeJanitorDeleteScratch(scratch.routingHandoffDelete)
	keysOut := ensureJanitorLookupScratch(scratch.routingHandoffKeys)
	valuesOut := ensureJanitorLookupScratch(scratch.routingHandoffValues)
	totalEntries := 0
	defer func() {
		scratch.routingHandoffDelete = keepJanitorDeleteScratch(keysToDelete)
		scratch.routingHandoffKeys = keysOut
		scratch.routingHandoffValues = valuesOut
	}()

	var cursor ebpf.MapBatchCursor
	for {
		count, batchErr := bpf.RoutingHandoffMap.BatchLookup(&cursor, keysOut, valuesOut, nil)
		if count > 0 {
			for i := range count {
				totalEntries++
				if routingHandoffExpired(nowNano, valuesOut[i].LastSeenNs) ||
					(staleBeforeNs > 0 && (valuesOut[i].LastSeenNs == 0 || valuesOut[i].LastSeenNs < staleBeforeNs)) {
					keysToDelete = append(keysToDelete, keysOut[i])
				}
			}
		}
		if batchErr != nil {
			if !isIgnorableBatchLookupErr(batchErr) {
				c.log.Errorf("cleanupRoutingHandoffMap: BatchLookup error: %v", batchErr)
			}
			break
		}
	}

	if len(keysToDelete) > 0 {
		if _, deleteErr := BpfMapBatchDelete(bpf.RoutingHandoffMap, keysToDelete); deleteErr != nil {
			c.log.Debugf("cleanupRoutingHandoffMap: batch delete error: %v", deleteErr)
		}
		c.log.Debugf("cleanupRoutingHandoffMap: removed %d expired entries", len(keysToDelete))
	}

	maxEntries := bpf.RoutingHandoffMap.MaxEntries()
	if totalEntries > 0 && maxEntries > 0 {
		usagePercent := float64(totalEntries) / float64(maxEntries) * 100
		if usagePercent > 90 {
			c.log.Warnf("cleanupRoutingHandoffMap: map at %.1f%% capacity (%d entries)", usagePercent, totalEntries)
		}
	}
	return len(keysToDelete)
}

func (c *ControlPlane) cleanupConnStateMap(aggressiveCleanup bool) (udpStats, tcpStats mapCleanupStats) {
	verifsim.Yield("control_plane.go:2461")
	c.connStateCleanupMu.Lock()
	verifsim.Locked()
	defer verifsim.DeferUnlock(c.connStateCleanupMu.Unlock)
	return c.cleanupConnStateMapBeforeLocked(aggressiveCleanup, 0)
}

func (c *ControlPlane) cleanupConnStateMapBeforeLocked(aggressiveCleanup bool, staleBeforeNs uint64) (udpStats, tcpStats mapCleanupStats) {
	{
		verifsim.Yield("control_plane.go:2467")
		_vc41 := c.connStateJanitorStop
		_vi42 := -1
		for _, _vo43 := range verifsim.SelectOrder("control_plane.go:2467", 1) {
			switch _vo43 {
			case 0:
				select {
				case <-_vc41:
					_vi42 = 0
				default:
				}
			}
			if _vi42 >= 0 {
				break
			}
		}
		switch _vi42 {
		case 0:
			return
		default:
		}
	}

	bpf := c.currentBpf()
	if bpf == nil || bpf.ConnStateMap == nil {
		return
	}

	var ts unix.Timespec
	if err := unix.ClockGettime(unix.CLOCK_MONOTONIC, &ts); err != nil {
		c.log.Errorf("cleanupConnStateMap: failed to get monotonic time: %v", err)
		return
	}
	nowNano := ts.Nano()

	dnsTimeoutNano := udpConnStateTimeoutDNS.Nanoseconds()
	normalTimeoutNano := QuicNatTimeout.Nanoseconds()
	aggressiveTimeout := normalTimeoutNano / 2
	aggressiveDnsTimeout := dnsTimeoutNano / 2

	establishedTimeoutNano := tcpConnStateTimeoutEstablished.Nanoseconds()
	closingTimeoutNano := tcpConnStateTimeoutClosing.Nanoseconds()
	aggressiveEstablishedTimeout := establishedTimeoutNano / 2
	aggressiveClosingTimeout := closingTimeoutNano / 2

	scratch := c.connStateJanitorScratch()
	udpKeysToDelete := takeJanitorDeleteScratch(scratch.udpDelete)
	tcpKeysToDelete := takeJanitorDeleteScratch(scratch.tcpDelete)
	keysOut := ensureJanitorLookupScratch(scratch.udpKeys)
	valuesOut := ensureJanitorLookupScratch(scratch.udpValues)
	defer func() {
		scratch.udpDelete = keepJanitorDeleteScratch(udpKeysToDelete)
		scratch.tcpDelete = keepJanitorDeleteScratch(tcpKeysToDelete)
		scratch.udpKeys = keysOut
		scratch.udpValues = valuesOut
	}()

	var cursor ebpf.MapBatchCursor

	for {
		count, err := bpf.ConnStateMap.BatchLookup(&cursor, keysOut, valuesOut, nil)
		if count > 0 {
			for i := range count {
				key := keysOut[i]
				value := valuesOut[i]
				switch key.L4proto {
				case unix.IPPROTO_UDP:
					udpStats.entries++
					isDNS := key.Sport == dnsPortNetworkOrder || key.Dport == dnsPortNetworkOrder
					timeout := normalTimeoutNano
					if isDNS {
						timeout = dnsTimeoutNano
					}
					if aggressiveCleanup {
						if isDNS {
							timeout = aggressiveDnsTimeout
						} else {
							timeout = aggressiveTimeout
						}
					}
					age := nowNano - int64(value.LastSeenNs)
					if age > timeout ||
						(staleBeforeNs > 0 && (value.LastSeenNs == 0 || value.LastSeenNs < staleBeforeNs)) {
						udpKeysToDelete = append(udpKeysToDelete, key)
					}
				case unix.IPPROTO_TCP:
					tcpStats.entries++
					establishedTimeout := establishedTimeoutNano
					closingTimeout := closingTimeoutNano
					if aggressiveCleanup {
						establishedTimeout = aggressiveEstablishedTimeout
						closingTimeout = aggressiveClosingTimeout
					}
					shouldDelete := false
					if value.State == 1 {
						age := nowNano - int64(value.LastSeenNs)
						if age > closingTimeout {
							shouldDelete = true
						}
					} else {
						age := nowNano - int64(value.LastSeenNs)
						if age > establishedTimeout {
							shouldDelete = true
						}
					}
					if !shouldDelete && staleBeforeNs > 0 &&
						(value.LastSeenNs == 0 || value.LastSeenNs < staleBeforeNs) {
						shouldDelete = true
					}
					if shouldDelete {
						tcpKeysToDelete = append(tcpKeysToDelete, key)
					}
				}
			}
		}
		if err != nil {
			if !isIgnorableBatchLookupErr(err) {
				c.log.Errorf("cleanupConnStateMap: BatchLookup error: %v", err)
			}
			break
		}
	}

	maxEntries := bpf.ConnStateMap.MaxEntries()
	if maxEntries > 0 {
		udpStats.maxEntries = int(maxEntries)
		tcpStats.maxEntries = int(maxEntries)
		udpStats.usagePercent = udpStats.entries * 100 / int(maxEntries)
		tcpStats.usagePercent = tcpStats.entries * 100 / int(maxEntries)
	}

	if len(udpKeysToDelete) > 0 {
		if _, err := BpfMapBatchDelete(bpf.ConnStateMap, udpKeysToDelete); err != nil {
			c.log.Debugf("cleanupConnStateMap: UDP batch delete error: %v", err)
		}
	}
	udpStats.deleted = len(udpKeysToDelete)

	if len(tcpKeysToDelete) > 0 {
		if _, err := BpfMapBatchDelete(bpf.ConnStateMap, tcpKeysToDelete); err != nil {
			c.log.Debugf("cleanupConnStateMap: TCP batch delete error: %v", err)
		}
	}
	tcpStats.deleted = len(tcpKeysToDelete)

	if len(udpKeysToDelete) > 0 {
		if aggressiveCleanup {
			c.log.Debugf("cleanupConnStateMap: aggressive cleanup removed %d UDP entries (%d%% usage)",
				len(udpKeysToDelete), udpStats.usagePercent)
		} else {
			c.log.Debugf("cleanupConnStateMap: removed %d expired UDP entries", len(udpKeysToDelete))
		}
	}
	if len(tcpKeysToDelete) > 0 {
		if aggressiveCleanup {
			c.log.Debugf("cleanupConnStateMap: aggressive cleanup removed %d TCP entries (%d%% usage)",
				len(tcpKeysToDelete), tcpStats.usagePercent)
		} else {
			c.log.Debugf("cleanupConnStateMap: removed %d expired TCP entries", len(tcpKeysToDelete))
		}
	}

	return udpStats, tcpStats
}

func (c *ControlPlane) connStateJanitorScratch() *connStateJanitorScratch {
	if c == nil {
		return nil
	}
	return c.scratch()
}

func (c *ControlPlane) checkBpfMapHealth(udpOverflow, tcpOverflow uint64) {
	bpf := c.currentBpf()
	if bpf == nil {
		return
	}

	// Define alert thresholds
	const (
		warnThreshold	= 70			// Alert at 70% capacity
		critThreshold	= 85			// Critical alert at 85% capacity
		alertCooldown	= 30 * time.Second	// Minimum time between alerts
	)

	now := time.Now()

	if udpOverflow > 0 || tcpOverflow > 0 {

		nowNano := now.UnixNano()
		verifsim.Yield("control_plane.go:2645")
		last := c.lastBpfOverflowAlertTime.Load()
		if last == 0 || last+int64(alertCooldown) < nowNano {
			verifsim.Yield("control_plane.go:2647")
			if c.lastBpfOverflowAlertTime.CompareAndSwap(last, nowNano) {
				c.log.Warnf("BPF map overflow detected: UDP conn state=%d, TCP conn state=%d. "+
					"Some packets are falling back to slower paths. Check if map capacity is adequate.",
					udpOverflow, tcpOverflow)
			}
		}
	}

	if bpf.ConnStateMap == nil {
		return
	}

	maxEntries := bpf.ConnStateMap.MaxEntries()
	if maxEntries == 0 {
		return
	}

	if udpOverflow > 100 {
		nowNano := now.UnixNano()
		verifsim.Yield("control_plane.go:2668")
		last := c.lastUdpPressureAlertTime.Load()
		if last == 0 || last+int64(alertCooldown) < nowNano {
			verifsim.Yield("control_plane.go:2670")
			if c.lastUdpPressureAlertTime.CompareAndSwap(last, nowNano) {
				c.log.Errorf("CRITICAL: UDP conn state map is under heavy pressure (overflow=%d). "+
					"Configured capacity=%d. Consider increasing conn_state_map capacity or reducing UDP connection timeout.",
					udpOverflow, maxEntries)
			}
		}
	}
	if tcpOverflow > 100 {
		nowNano := now.UnixNano()
		verifsim.Yield("control_plane.go:2679")
		last := c.lastTcpPressureAlertTime.Load()
		if last == 0 || last+int64(alertCooldown) < nowNano {
			verifsim.Yield("control_plane.go:2681")
			if c.lastTcpPressureAlertTime.CompareAndSwap(last, nowNano) {
				c.log.Errorf("CRITICAL: TCP conn state map is under heavy pressure (overflow=%d). "+
					"Configured capacity=%d. Consider increasing conn_state_map capacity or reducing TCP connection timeout.",
					tcpOverflow, maxEntries)
			}
		}
	}
}

func (c *ControlPlane) readMapOverflowCounters(m *ebpf.Map) (udpOverflow uint64, tcpOverflow uint64) {
	if m == nil {
		return 0, 0
	}
	if v, err := readBpfStatsCounter(m, 0); err == nil {
		udpOverflow = v
	}
	if v, err := readBpfStatsCounter(m, 1); err == nil {
		tcpOverflow = v
	}
	return udpOverflow, tcpOverflow
}

func (c *ControlPlane) allowDnsFastPathErrorLog(now time.Time) bool {
	nowNano := now.UnixNano()
	for {
		verifsim.Yield("control_plane.go:2706")
		last := c.lastDnsFastPathErrorLogTime.Load()
		if nowNano-last < int64(dnsFastPathErrorLogInterval) {
			return false
		}
		verifsim.Yield("control_plane.go:2710")
		if c.lastDnsFastPathErrorLogTime.CompareAndSwap(last, nowNano) {
			return true
		}
	}
}

func (c *ControlPlane) allowDnsFastPathServfailLog(now time.Time) bool {
	nowNano := now.UnixNano()
	for {
		verifsim.Yield("control_plane.go:2719")
		last := c.lastDnsFastPathServfailLogTime.Load()
		if nowNano-last < int64(dnsFastPathErrorLogInterval) {
			return false
		}
		verifsim.Yield("control_plane.go:2723")
		if c.lastDnsFastPathServfailLogTime.CompareAndSwap(last, nowNano) {
			return true
		}
	}
}

func readBpfStatsCounter(m *ebpf.Map, key uint32) (uint64, error) {
	var value uint64
	if err := m.Lookup(&key, &value); err != nil {
		return 0, err
	}
	return value, nil
}

type Listener struct {
	tcp4Listener	net.Listener
	tcp6Listener	net.Listener
	packetConn	net.PacketConn
	port		uint16
}

const udpDualStackListenIP = "::"

func udpDualStackListenAddr(port uint16) string {
	return net.JoinHostPort(udpDualStackListenIP, strconv.Itoa(int(port)))
}

func enableUDPDualStackSocket(c syscall.RawConn) error {
	var sockOptErr error
	controlErr := c.Control(func(fd uintptr) {
		if err := unix.SetsockoptInt(int(fd), syscall.IPPROTO_IPV6, unix.IPV6_V6ONLY, 0); err != nil {
			sockOptErr = fmt.Errorf("error setting IPV6_V6ONLY socket option: %w", err)
		}
	})
	if controlErr != nil {
		return fmt.Errorf("error invoking socket control function: %w", controlErr)
	}
	return sockOptErr
}

func udpDualStackListenControl(c syscall.RawConn) error {
	if err := dialer.TproxyControl(c); err != nil {
		return err
	}
	return enableUDPDualStackSocket(c)
}

func udpIngressSupportsBatch(conn *net.UDPConn) bool {
	if conn == nil {
		return false
	}
	_, ok := conn.LocalAddr().(*net.UDPAddr)
	return ok
}

func wakeTCPListener(listener net.Listener) {
	tcpListener, ok := listener.(*net.TCPListener)
	if !ok || tcpListener == nil {
		return
	}
	_ = tcpListener.SetDeadline(time.Now())
}

func wakePacketConn(packetConn net.PacketConn) {
	udpConn, ok := packetConn.(*net.UDPConn)
	if !ok || udpConn == nil {
		return
	}
	now := time.Now()
	_ = udpConn.SetReadDeadline(now)
	_ = udpConn.SetWriteDeadline(now)
}

func (l *Listener) Close() error {
	if l == nil {
		return nil
	}

	var err error

	if l.tcp4Listener != nil {
		wakeTCPListener(l.tcp4Listener)
		err = l.tcp4Listener.Close()
	}
	if l.tcp6Listener != nil {
		wakeTCPListener(l.tcp6Listener)
		if err2 := l.tcp6Listener.Close(); err2 != nil {
			if err == nil {
				err = err2
			} else {
				err = fmt.Errorf("%w: %v", err, err2)
			}
		}
	}
	if l.packetConn != nil {
		wakePacketConn(l.packetConn)
		if err2 := l.packetConn.Close(); err2 != nil {
			if err == nil {
				err = err2
			} else {
				err = fmt.Errorf("%w: %v", err, err2)
			}
		}
	}
	return err
}

func (l *Listener) Clone() (cloned *Listener, err error) {
	if l == nil {
		return nil, fmt.Errorf("nil listener")
	}

	cloned = &Listener{port: l.port}
	defer func() {
		if err != nil && cloned != nil {
			_ = cloned.Close()
		}
	}()

	if l.tcp4Listener != nil {
		cloned.tcp4Listener, err = cloneTCPListener(l.tcp4Listener)
		if err != nil {
			return nil, fmt.Errorf("clone tcp4 listener: %w", err)
		}
	}
	if l.tcp6Listener != nil {
		cloned.tcp6Listener, err = cloneTCPListener(l.tcp6Listener)
		if err != nil {
			return nil, fmt.Errorf("clone tcp6 listener: %w", err)
		}
	}
	if l.packetConn != nil {
		cloned.packetConn, err = cloneUDPPacketConn(l.packetConn)
		if err != nil {
			return nil, fmt.Errorf("clone udp packet conn: %w", err)
		}
	}

	return cloned, nil
}

func cloneTCPListener(listener net.Listener) (net.Listener, error) {
	file, err := dupTCPListenerFile(listener)
	if err != nil {
		return nil, err
	}
	defer func() { _ = file.Close() }()

	cloned, err := net.FileListener(file)
	if err != nil {
		return nil, err
	}
	return cloned, nil
}

func cloneUDPPacketConn(packetConn net.PacketConn) (net.PacketConn, error) {
	file, err := dupUDPPacketConnFile(packetConn)
	if err != nil {
		return nil, err
	}
	defer func() { _ = file.Close() }()

	cloned, err := net.FilePacketConn(file)
	if err != nil {
		return nil, err
	}
	return cloned, nil
}

func dupTCPListenerFile(listener net.Listener) (*os.File, error) {
	tcpListener, ok := listener.(*net.TCPListener)
	if !ok {
		return nil, fmt.Errorf("unexpected tcp listener type %T", listener)
	}
	rawConn, err := tcpListener.SyscallConn()
	if err != nil {
		return nil, err
	}
	return dupRawConnFile(rawConn, "dae-tcp-listener")
}

func dupUDPPacketConnFile(packetConn net.PacketConn) (*os.File, error) {
	udpConn, ok := packetConn.(*net.UDPConn)
	if !ok {
		return nil, fmt.Errorf("unexpected udp packet conn type %T", packetConn)
	}
	rawConn, err := udpConn.SyscallConn()
	if err != nil {
		return nil, err
	}
	return dupRawConnFile(rawConn, "dae-udp-packet-conn")
}

func dupRawConnFile(rawConn syscall.RawConn, name string) (*os.File, error) {
	var dupFD int
	var dupErr error
	if err := rawConn.Control(func(fd uintptr) {
		dupFD, dupErr = unix.Dup(int(fd))
		if dupErr == nil {
			unix.CloseOnExec(dupFD)
		}
	}); err != nil {
		return nil, err
	}
	if dupErr != nil {
		return nil, dupErr
	}
	return os.NewFile(uintptr(dupFD), name), nil
}

func (c *ControlPlane) activatePreparedRuntime() error {
	if c == nil {
		return nil
	}

	c.publishRuntimeStats()
	if err := c.StartPreparedDNSListener(); err != nil {
		c.unpublishRuntimeStats()
		return err
	}
	return nil
}

func shouldSkipDNSFastPathForLocalListenerTraffic(listenAddr string, src, dst netip.AddrPort) bool {
	if listenAddr == "" || dst.Port() != 53 {
		return false
	}

	if dst.Addr().IsLoopback() || dst.Addr().IsUnspecified() {
		_, portStr, err := net.SplitHostPort(listenAddr)
		if err != nil {
			return false
		}
		port, err := strconv.Atoi(portStr)
		if err != nil {
			return false
		}
		return uint16(port) == dst.Port()
	}

	if listenAddr == dst.String() {
		return src.Addr().IsLoopback() || src.Addr().IsUnspecified() || src.Addr() == dst.Addr()
	}

	return false
}

func (c *ControlPlane) Serve(readyChan chan<- bool, listener *Listener) (err error) {
	sentReady := false
	defer func() {
		if !sentReady {
			{
				verifsim.Yield("control_plane.go:2983")
				_vc44 := readyChan
				_vi45 := -1
				for _, _vo46 := range verifsim.SelectOrder("control_plane.go:2983", 1) {
					switch _vo46 {
					case 0:
						select {
						case _vc44 <- false:
							_vi45 = 0
						default:
						}
					}
					if _vi45 >= 0 {
						break
					}
				}
				switch _vi45 {
				case 0:
				default:
				}
			}

		}
	}()
	udpConn := listener.packetConn.(*net.UDPConn)
	if err := c.CommitPreparedDatapath(); err != nil {
		return err
	}
	if err := c.publishListenerSockets(listener); err != nil {
		return err
	}
	if err := c.activatePreparedRuntime(); err != nil {
		return err
	}

	c.markReady()
	sentReady = true
	{
		verifsim.Yield("control_plane.go:3002")
		_vc47 := readyChan
		_vi48 := -1
		for _, _vo49 := range verifsim.SelectOrder("control_plane.go:3002", 1) {
			switch _vo49 {
			case 0:
				select {
				case _vc47 <- true:
					_vi48 = 0
				default:
				}
			}
			if _vi48 >= 0 {
				break
			}
		}
		switch _vi48 {
		case 0:
		default:
		}
	}

	serveTCP := func(tcpListener net.Listener) {
		for {
			{
				verifsim.Yield("control_plane.go:3008")
				_vc50 := c.ctx.Done()
				_vi51 := -1
				for _, _vo52 := range verifsim.SelectOrder("control_plane.go:3008", 1) {
					switch _vo52 {
					case 0:
						select {
						case <-_vc50:
							_vi51 = 0
						default:
						}
					}
					if _vi51 >= 0 {
						break
					}
				}
				switch _vi51 {
				case 0:
					return
				default:
				}
			}

			lconn, err := tcpListener.Accept()
			if err != nil {
				var netErr net.Error
				if stderrors.As(err, &netErr) && netErr.Timeout() {
					return
				}
				if !commonerrors.IsClosedConnection(err) && !stderrors.Is(err, context.Canceled) {
					c.log.Errorf("Error when accept: %v", err)
				}
				return
			}
			drainRelease := c.acquireDrainTicket()
			{
				_vf53 := func(lconn net.Conn, release func()) {
					defer release()
					if !c.registerIncomingConnection(lconn) {
						return
					}
					defer c.unregisterIncomingConnection(lconn)

					if err := c.handleConn(c.ctx, lconn); err != nil {
						c.log.Warnln("handleConn:", err)
					}
				}
				_va54 := lconn
				_va55 := drainRelease
				verifsim.Go("control_plane.go:3025", func() {
					_vf53(_va54, _va55)
				})
			}
		}
	}
	{
		_vf56 := serveTCP
		_va57 := listener.tcp4Listener
		verifsim.Go("control_plane.go:3040", func() {
			_vf56(_va57)
		})
	}
	{
		_vf58 := serveTCP
		_va59 := listener.tcp6Listener
		verifsim.Go("control_plane.go:3041", func() {
			_vf58(_va59)
		})
	}
	verifsim.Go("control_plane.go:3042", func() {
		processPacket := func(pktBuf pool.PB, src netip.AddrPort, oob []byte) {
			pktDst := RetrieveOriginalDest(oob)
			realDst := common.ConvergeAddrPort(pktDst)

			convergeSrc := common.ConvergeAddrPort(src)
			flowDecision := ClassifyUdpFlow(convergeSrc, realDst, pktBuf)
			if flowDecision.IsQuicInitial {
				flowDecision = flowDecision.EnsureSnifferSession()
			}

			task := func() {
				data := pktBuf

				defer data.Put()
				var routingResult *bpfRoutingResult
				var freshRoutingResult *bpfRoutingResult

				if realDst.Port() == 53 {

					if c.dnsListener != nil {
						listenAddr := c.dnsListener.Addr()
						if shouldSkipDNSFastPathForLocalListenerTraffic(listenAddr, convergeSrc, realDst) {
							if c.log.IsLevelEnabled(logrus.TraceLevel) {
								c.log.WithFields(logrus.Fields{
									"src":		convergeSrc.String(),
									"dst":		realDst.String(),
									"listenAddr":	listenAddr,
								}).Trace("Skipping DNS fast path for local traffic to our own DNS listener")
							}
							return
						}
					}

					if dnsMessage, _ := ChooseNatTimeout(data, true); dnsMessage != nil {
						dnsRoutingResult := &bpfRoutingResult{
							Outbound:	uint8(consts.OutboundControlPlaneRouting),
							Mark:		c.soMarkFromDae,
						}
						if rr, retrieveErr := c.core.RetrieveRoutingResult(convergeSrc, realDst, unix.IPPROTO_UDP); retrieveErr == nil {
							dnsRoutingResult = rr
							if dnsRoutingResult.Mark == 0 {
								dnsRoutingResult.Mark = c.soMarkFromDae
							}
						} else if !stderrors.Is(retrieveErr, ebpf.ErrKeyNotExist) && c.log.IsLevelEnabled(logrus.DebugLevel) {
							c.log.WithFields(logrus.Fields{
								"src":	convergeSrc.String(),
								"dst":	realDst.String(),
							}).WithError(retrieveErr).Debug("UDP routing tuple lookup failed for DNS ingress fast path; fallback to minimal routing metadata")
						}
						req := &udpRequest{
							realSrc:	convergeSrc,
							realDst:	realDst,
							src:		convergeSrc,
							lConn:		udpConn,
							routingResult:	dnsRoutingResult,
						}

						dnsController := c.ActiveDnsController()
						if dnsController == nil {
							return
						}
						if e := dnsController.Handle_(c.dnsRequestContext(c.ctx, dnsController), dnsMessage, req); e != nil {
							if stderrors.Is(e, ErrDNSQueryConcurrencyLimitExceeded) {
								if c.log.IsLevelEnabled(logrus.DebugLevel) {
									c.log.WithFields(logrus.Fields{
										"src":	convergeSrc.String(),
										"dst":	realDst.String(),
									}).Debug("DNS query concurrency limit exceeded in fast path")
								}
								return
							}
							if stderrors.Is(e, ErrDNSTruncated) {
								if c.log.IsLevelEnabled(logrus.DebugLevel) {
									c.log.WithFields(logrus.Fields{
										"src":		convergeSrc.String(),
										"dst":		realDst.String(),
										"question":	dnsMessage.Question,
									}).Debug("DNS ingress fast path got truncated UDP response; returning TC=1 to client")
								}
								if sendErr := dnsController.sendDnsTruncatedResponse_(dnsMessage, req, nil); sendErr != nil {
									if c.log.IsLevelEnabled(logrus.WarnLevel) && c.allowDnsFastPathServfailLog(time.Now()) {
										c.log.WithError(stderrors.Join(e, sendErr)).WithFields(logrus.Fields{
											"src":	convergeSrc.String(),
											"dst":	realDst.String(),
										}).Warn("Failed to send truncated DNS response in DNS fast path")
									}
								}
								return
							}
							if c.log.IsLevelEnabled(logrus.WarnLevel) && c.allowDnsFastPathErrorLog(time.Now()) {
								c.log.WithFields(logrus.Fields{
									"src":		convergeSrc.String(),
									"dst":		realDst.String(),
									"question":	dnsMessage.Question,
									"error":	e.Error(),
								}).Warn("DNS ingress fast path failed; sending SERVFAIL response")
							}
							if sendErr := dnsController.sendDnsErrorResponse_(dnsMessage, dnsmessage.RcodeServerFailure, "ServeFail (dns ingress fast path)", req, nil); sendErr != nil {
								if c.log.IsLevelEnabled(logrus.WarnLevel) && c.allowDnsFastPathServfailLog(time.Now()) {
									c.log.WithError(stderrors.Join(e, sendErr)).WithFields(logrus.Fields{
										"src":	convergeSrc.String(),
										"dst":	realDst.String(),
									}).Warn("Failed to send SERVFAIL response in DNS fast path")
								}
								return
							}
						} else if c.log.IsLevelEnabled(logrus.TraceLevel) {

							c.log.WithFields(logrus.Fields{
								"src":		convergeSrc.String(),
								"dst":		realDst.String(),
								"question":	dnsMessage.Question,
							}).Trace("DNS ingress fast path handled successfully")
						}
						return
					}
				}

				if !c.udpRouteScopeSensitive {
					if ue, ok := DefaultUdpEndpointPool.Get(flowDecision.CachedRoutingEndpointKey()); ok {
						if cached, cacheHit := ue.GetCachedRoutingResult(realDst, unix.IPPROTO_UDP); cacheHit {
							routingResult = cached
						}
					}
					if routingResult == nil {
						if fallbackKey, ok := flowDecision.CachedRoutingFallbackKey(); ok {
							if ue, ok := DefaultUdpEndpointPool.Get(fallbackKey); ok {
								if cached, cacheHit := ue.GetCachedRoutingResult(realDst, unix.IPPROTO_UDP); cacheHit {
									routingResult = cached
								}
							}
						}
					}
				}

				if routingResult == nil {
					rr, retrieveErr := c.core.RetrieveRoutingResult(convergeSrc, realDst, unix.IPPROTO_UDP)
					if retrieveErr != nil {
						switch {
						case stderrors.Is(retrieveErr, ebpf.ErrKeyNotExist):

							routingResult = &bpfRoutingResult{
								Outbound: uint8(consts.OutboundControlPlaneRouting),
							}
							if c.log.IsLevelEnabled(logrus.DebugLevel) {
								c.log.WithFields(logrus.Fields{
									"src":	convergeSrc.String(),
									"dst":	realDst.String(),
								}).WithError(retrieveErr).Debug("UDP routing tuple missing; fallback to userspace routing")
							}
						case realDst.Port() == 53:

							routingResult = &bpfRoutingResult{
								Outbound: uint8(consts.OutboundControlPlaneRouting),
							}
							c.log.WithFields(logrus.Fields{
								"src":	convergeSrc.String(),
								"dst":	realDst.String(),
							}).WithError(retrieveErr).Warn("UDP routing tuple lookup failed for DNS; fallback to userspace routing")
						default:
							c.log.Warnf("No AddrPort presented: %v", retrieveErr)
							return
						}
					} else {
						routingResult = rr
						rrCopy := *routingResult
						freshRoutingResult = &rrCopy
					}
				}

				if e := c.handlePkt(udpConn, data, convergeSrc, realDst, routingResult, flowDecision, false); e != nil {
					c.log.Warnln("handlePkt:", e)
					return
				}

				if !c.udpRouteScopeSensitive && freshRoutingResult != nil {
					updatedCache := false
					if ue, ok := DefaultUdpEndpointPool.Get(flowDecision.CachedRoutingEndpointKey()); ok {
						ue.UpdateCachedRoutingResult(realDst, unix.IPPROTO_UDP, freshRoutingResult)
						updatedCache = true
					}
					if !updatedCache {
						if fallbackKey, ok := flowDecision.CachedRoutingFallbackKey(); ok {
							if ue, ok := DefaultUdpEndpointPool.Get(fallbackKey); ok {
								ue.UpdateCachedRoutingResult(realDst, unix.IPPROTO_UDP, freshRoutingResult)
							}
						}
					}
				}
			}

			switch flowDecision.DispatchStrategy() {
			case StrategyOrderedIngress:
				DefaultUdpTaskPool.EmitTask(flowDecision.Key, task)
			case StrategyDirectGoroutine:
				{
					_vf60 := task
					verifsim.Go("control_plane.go:3259", func() {
						_vf60()
					})
				}
			default:

				if !c.udpUnorderedRunner.Submit(flowDecision.Key, task) {
					pktBuf.Put()
				}
			}

		}

		if udpIngressSupportsBatch(udpConn) {
			batchReader := newUDPIngressBatchReader(udpConn, 0)
			if batchReader == nil {
				goto singleRead
			}
			defer batchReader.Close()

			for {
				{
					verifsim.Yield("control_plane.go:3279")
					_vc61 := c.ctx.Done()
					_vi62 := -1
					for _, _vo63 := range verifsim.SelectOrder("control_plane.go:3279", 1) {
						switch _vo63 {
						case 0:
							select {
							case <-_vc61:
								_vi62 = 0
							default:
							}
						}
						if _vi62 >= 0 {
							break
						}
					}
					switch _vi62 {
					case 0:
						return
					default:
					}
				}

				n, err := batchReader.ReadBatch()
				if err != nil {
					if !commonerrors.IsClosedConnection(err) {
						c.log.Errorf("ReadBatchUDP: %v", err)
					}
					break
				}
				for i := range n {
					pktBuf, src, oob, ok := batchReader.Take(i)
					if !ok {
						continue
					}
					processPacket(pktBuf, src, oob)
				}
			}
			return
		}

	singleRead:
		var oob [udpIngressOobSize]byte
		for {
			{
				verifsim.Yield("control_plane.go:3308")
				_vc64 := c.ctx.Done()
				_vi65 := -1
				for _, _vo66 := range verifsim.SelectOrder("control_plane.go:3308", 1) {
					switch _vo66 {
					case 0:
						select {
						case <-_vc64:
							_vi65 = 0
						default:
						}
					}
					if _vi65 >= 0 {
						break
					}
				}
				switch _vi65 {
				case 0:
					return
				default:
				}
			}

			pktBuf := pool.GetFullCap(consts.EthernetMtu)
			n, oobn, _, src, err := udpConn.ReadMsgUDPAddrPort(pktBuf, oob[:])
			if err != nil {
				pktBuf.Put()
				if !commonerrors.IsClosedConnection(err) {
					c.log.Errorf("ReadMsgUDPAddrPort: %v", err)
				}
				break
			}

			processPacket(pktBuf[:n], src, oob[:oobn])
		}
	})
	c.ActivateCheck()
	verifsim.Yield("control_plane.go:3331")
	<-c.ctx.Done()
	verifsim.Yield("control_plane.go:3331+")
	verifsim.Yield("control_plane.go:3335")

	ctxErr := c.ctx.Err()
	if ctxErr != nil {
		c.log.WithFields(logrus.Fields{
			"error": ctxErr.Error(),
		}).Info("[ControlPlane] Serve() exiting; context cancelled")
	}
	return nil
}

func (c *ControlPlane) Listen(port uint16) (listener *Listener, err error) {

	tcpListenConfig := net.ListenConfig{
		Control: func(network, address string, c syscall.RawConn) error {
			return dialer.TproxyControl(c)
		},
	}
	udpListenConfig := net.ListenConfig{
		Control: func(network, address string, c syscall.RawConn) error {
			return udpDualStackListenControl(c)
		},
	}
	tcp4ListenAddr := net.JoinHostPort(c.listenIp, strconv.Itoa(int(port)))
	tcp4Listener, err := tcpListenConfig.Listen(context.Background(), "tcp4", tcp4ListenAddr)
	if err != nil {
		return nil, fmt.Errorf("listenTCP4: %w", err)
	}
	tcp6Listener, err := tcpListenConfig.Listen(context.Background(), "tcp6", net.JoinHostPort("::", strconv.Itoa(int(port))))
	if err != nil {
		_ = tcp4Listener.Close()
		return nil, fmt.Errorf("listenTCP6: %w", err)
	}
	packetConn, err := udpListenConfig.ListenPacket(context.Background(), "udp6", udpDualStackListenAddr(port))
	if err != nil {
		if c.log != nil {
			c.log.WithError(err).Warn("Failed to open dual-stack UDP listener; fallback to IPv4-only UDP listener")
		}
		packetConn, err = tcpListenConfig.ListenPacket(context.Background(), "udp", tcp4ListenAddr)
		if err != nil {
			_ = tcp4Listener.Close()
			_ = tcp6Listener.Close()
			return nil, fmt.Errorf("listenUDP: %w", err)
		}
	}
	listener = &Listener{
		tcp4Listener:	tcp4Listener,
		tcp6Listener:	tcp6Listener,
		packetConn:	packetConn,
		port:		port,
	}
	defer func() {
		if err != nil {
			_ = listener.Close()
		}
	}()

	return listener, nil
}

func (c *ControlPlane) ListenAndServe(readyChan chan<- bool, port uint16) (listener *Listener, err error) {
	listener, err = c.Listen(port)
	if err != nil {
		return nil, err
	}

	if err = c.Serve(readyChan, listener); err != nil {
		return nil, fmt.Errorf("failed to serve: %w", err)
	}

	return listener, nil
}

func (c *ControlPlane) chooseBestDnsDialer(
	ctx context.Context, req *udpRequest, dnsUpstream *dns.Upstream,
) (*dialArgument, error) {
	now := time.Now()
	snapshotKey, snapshotEnabled := buildDnsDialerSnapshotKey(req, dnsUpstream)
	if snapshotEnabled {
		if cachedDialArg, hit := c.loadDnsDialerSnapshot(snapshotKey, now); hit {
			return cachedDialArg, nil
		}
	}

	ipversions, l4protos := dnsUpstream.SupportedNetworks()
	var (
		bestCandidate		*dnsDialerCandidate
		bestPenalizedCandidate	*dnsDialerCandidate
	)

	networkType := dialer.NetworkType{
		IsDns:			true,
		UdpHealthDomain:	dialer.UdpHealthDomainDns,
	}
	for _, ver := range ipversions {
		for _, proto := range l4protos {
			networkType.L4Proto = proto
			networkType.IpVersion = ver
			var dAddr netip.Addr
			switch ver {
			case consts.IpVersionStr_4:
				dAddr = dnsUpstream.Ip4
			case consts.IpVersionStr_6:
				dAddr = dnsUpstream.Ip6
			default:
				return nil, fmt.Errorf("unexpected ipversion: %v", ver)
			}
			outboundIndex, mark, _, err := c.Route(req.realSrc, netip.AddrPortFrom(dAddr, dnsUpstream.Port), dnsUpstream.Hostname, proto.ToL4ProtoType(), req.routingResult)
			if err != nil {
				return nil, err
			}
			if mark == 0 {
				mark = c.soMarkFromDae
			}
			if int(outboundIndex) >= len(c.outbounds) {
				return nil, fmt.Errorf("bad outbound index: %v", outboundIndex)
			}
			dialerGroup := c.outbounds[outboundIndex]

			d, latency, err := dialerGroup.Select(&networkType, true)
			if err != nil {
				continue
			}
			candidate := &dnsDialerCandidate{
				dialArg: &dialArgument{
					l4proto:	proto,
					ipversion:	ver,
					bestDialer:	d,
					bestOutbound:	dialerGroup,
					bestTarget:	netip.AddrPortFrom(dAddr, dnsUpstream.Port),
					mark:		mark,
					mptcp:		c.mptcp,
				},
				latency:	latency,
			}
			if c.isDnsDialArgPenalized(candidate.dialArg, now) {
				bestPenalizedCandidate = pickBetterDnsDialerCandidate(bestPenalizedCandidate, candidate)
				continue
			}
			bestCandidate = pickBetterDnsDialerCandidate(bestCandidate, candidate)
			if bestCandidate.latency == 0 {
				break
			}
		}
	}
	selectedCandidate, selectedPenalized := chooseDnsDialerCandidate(bestCandidate, bestPenalizedCandidate)
	if selectedCandidate == nil || selectedCandidate.dialArg == nil {
		return nil, fmt.Errorf("no proper dialer for DNS upstream: %v", dnsUpstream.String())
	}
	selected := *selectedCandidate.dialArg
	switch selected.ipversion {
	case consts.IpVersionStr_4:
		selected.bestTarget = netip.AddrPortFrom(dnsUpstream.Ip4, dnsUpstream.Port)
	case consts.IpVersionStr_6:
		selected.bestTarget = netip.AddrPortFrom(dnsUpstream.Ip6, dnsUpstream.Port)
	}
	if c.log.IsLevelEnabled(logrus.TraceLevel) {
		fields := logrus.Fields{
			"ipversions":	ipversions,
			"l4protos":	l4protos,
			"upstream":	dnsUpstream.String(),
			"choose":	string(selected.l4proto) + "+" + string(selected.ipversion),
			"use":		selected.bestTarget.String(),
		}
		if selected.bestOutbound != nil {
			fields["outbound"] = selected.bestOutbound.Name
		}
		if selected.bestDialer != nil {
			fields["dialer"] = selected.bestDialer.Property().Name
		}
		if selectedPenalized {
			fields["penalized_fallback"] = true
		}
		c.log.WithFields(fields).Traceln("Choose DNS path")
	}
	if snapshotEnabled && !selectedPenalized {
		c.storeDnsDialerSnapshot(snapshotKey, &selected, now)
	}
	return &selected, nil
}

func (c *ControlPlane) AbortConnections() (err error) {
	if c == nil {
		return nil
	}
	verifsim.Yield("control_plane.go:3521")
	c.rejectNewConnections.Store(true)

	var errs []error
	verifsim.Yield("control_plane.go:3524")
	c.inConnections.Range(func(key, value any) bool {

		conn, ok := key.(net.Conn)
		if !ok {

			errs = append(errs, fmt.Errorf("unexpected type %T in inConnections", key))
			return true
		}
		if cerr := conn.Close(); cerr != nil {
			errs = append(errs, cerr)
		}
		verifsim.Yield("control_plane.go:3535")
		c.inConnections.Delete(key)
		return true
	})

	return stderrors.Join(errs...)
}

func (c *ControlPlane) DetachBpfHooks() error {
	if c == nil || c.core == nil {
		return nil
	}
	return c.core.DetachBpfHooks()
}

func (c *ControlPlane) MarkRetired() {
	if c == nil || c.core == nil {
		return
	}
	verifsim.Yield("control_plane.go:3563")
	c.core.retired.Store(true)
}

func ResetGlobalUdpState() {
	DefaultUdpEndpointPool.Reset()
	DefaultAnyfromPool.Reset()
	DefaultUdpTaskPool.Close()
	DefaultPacketSnifferSessionMgr.Close()
	ResetUdpLogLimiters()
}

func (c *ControlPlane) closeTail() error {
	var errs []error

	for i := len(c.deferFuncs) - 1; i >= 0; i-- {
		if e := c.deferFuncs[i](); e != nil {
			errs = append(errs, e)
		}
	}
	verifsim.Yield("control_plane.go:3587")

	c.realDomainNegSet.Range(func(key, value any) bool {
		verifsim.Yield("control_plane.go:3588")
		c.realDomainNegSet.Delete(key)
		return true
	})
	verifsim.Yield("control_plane.go:3591")
	c.dnsDialerSnapshot.Range(func(key, value any) bool {
		verifsim.Yield("control_plane.go:3592")
		c.dnsDialerSnapshot.Delete(key)
		return true
	})
	verifsim.Yield("control_plane.go:3595")
	c.dnsDialerPenalty.Range(func(key, value any) bool {
		verifsim.Yield("control_plane.go:3596")
		c.dnsDialerPenalty.Delete(key)
		return true
	})
	c.clearAllTcpSniffNegative()
	if c.failedQuicDcidCache != nil {
		c.failedQuicDcidCache.Clear()
		if getFailedQuicDcidCache() == c.failedQuicDcidCache {
			SetFailedQuicDcidCache(nil)
		}
	}

	if c.core != nil {
		if coreErr := c.core.Close(); coreErr != nil {
			errs = append(errs, coreErr)
		}
	}

	c.releaseRetainedState()

	return stderrors.Join(errs...)
}

func (c *ControlPlane) releaseRetainedState() {
	if c == nil {
		return
	}

	c.deferFuncs = nil
	c.controlPlaneGenerationState.releaseRetainedState()
	c.controlPlaneDNSRuntime.releaseRetainedState()
	if handoff, owned := c.takeDNSHandoffController(); owned && handoff != nil {
		_ = handoff.Close()
	}
	verifsim.Yield("control_plane.go:3640")
	c.muRealDomainSet.Lock()
	c.realDomainSet = nil
	c.muRealDomainSet.Unlock()
	c.controlPlaneDatapathJanitor.releaseRetainedState()
	c.wanInterface = nil
	c.lanInterface = nil
	c.udpUnorderedRunner = nil
	c.failedQuicDcidCache = nil
	verifsim.Yield("control_plane.go:3648")
	c.listenerPublishMu.Lock()
	c.listenerFiles = nil
	c.listenerPublishMu.Unlock()
	c.routingKernspaceSnapshot = nil
	c.pendingDnsReloadCache = nil
	c.core = nil
}

func (c *ControlPlane) Close() (err error) {
	if c == nil {
		return nil
	}
	verifsim.Yield("control_plane.go:3661")

	c.closeOnce.Do(func() {
		c.unpublishRuntimeStats()
		if c.cancel != nil {
			c.cancel()
		}

		var stopWg sync.WaitGroup
		verifsim.Yield("control_plane.go:3668")
		stopWg.Add(2)
		verifsim.Go("control_plane.go:3669", func() {
			defer stopWg.Done()
			c.stopRealDomainNegJanitor()
		})
		verifsim.Go("control_plane.go:3673", func() {
			defer stopWg.Done()
			c.stopConnStateJanitor()
		})
		verifsim.Yield("control_plane.go:3677")
		stopWg.Wait()
		verifsim.Yield("control_plane.go:3677+")

		done := make(chan error, 1)
		verifsim.Go("control_plane.go:3680", func() {
			verifsim.Yield("control_plane.go:3681")
			done <- c.closeTail()
			verifsim.Yield("control_plane.go:3681+")
		})

		timer := time.NewTimer(controlPlaneDeferredCleanupTimeout)
		defer timer.Stop()
		{
			verifsim.Yield("control_plane.go:3687")
			_vc67 := done
			var _vr68 = verifsim.ChanZero(_vc67)
			_vc69 := timer.C
			_vi70 := -1
			for _, _vo71 := range verifsim.SelectOrder("control_plane.go:3687", 2) {
				switch _vo71 {
				case 0:
					select {
					case _vr68 = <-_vc67:
						_vi70 = 0
					default:
					}
				case 1:
					select {
					case <-_vc69:
						_vi70 = 1
					default:
					}
				}
				if _vi70 >= 0 {
					break
				}
			}
			if _vi70 < 0 {
				select {
				case _vr68 = <-_vc67:
					_vi70 = 0
				case <-_vc69:
					_vi70 = 1
				}
				verifsim.Yield("control_plane.go:3687+")
			}
			switch _vi70 {
			case 0:
				err := _vr68
				c.closeErr = err
			case 1:

				timeoutErr := fmt.Errorf("control plane close tail timed out after %v", controlPlaneDeferredCleanupTimeout)
				if c.log != nil {
					c.log.WithError(timeoutErr).Warn("ControlPlane.Close: continuing while tail cleanup finishes in background")
				}
				c.closeErr = timeoutErr
			default:
				panic("verifsim: select dispatch: no case chosen")
			}
		}

	})

	return c.closeErr
}

func (c *ControlPlane) StopDNSListener() error {
	if c == nil {
		return nil
	}
	return c.controlPlaneDNSRuntime.stopOwnedDNSListener()
}

func (c *ControlPlane) RestartDNSListener() error {
	if c == nil {
		return nil
	}
	return c.restartDNSListener(&c.deferFuncs, c.stopOwnedDNSListener)
}

func (c *ControlPlane) ReuseDNSListenerFrom(previous *ControlPlane) bool {
	if c == nil || previous == nil {
		return false
	}
	return c.reuseDNSListenerFrom(&previous.controlPlaneDNSRuntime, c, &c.deferFuncs, c.stopOwnedDNSListener)
}

func (c *ControlPlane) ReuseDNSControllerFrom(previous *ControlPlane) bool {
	if c == nil || previous == nil {
		return false
	}
	return c.reuseDNSControllerFrom(
		&previous.controlPlaneDNSRuntime,
		c.dnsControllerOption(),
		c.dnsRouting,
		c.log,
		previous.SetDNSHandoffController,
	)
}

func (c *ControlPlane) SetPreparedDNSStartHook(hook func() error) {
	if c == nil {
		return
	}
	c.setPreparedDNSStartHook(hook)
}

func (c *ControlPlane) SetPreparedDNSReuseHook(hook func() error) {
	if c == nil {
		return
	}
	c.setPreparedDNSReuseHook(hook)
}

func (c *ControlPlane) WaitDNSUpstreamsReady(timeout time.Duration) error {
	if c == nil {
		return nil
	}
	return c.waitDNSUpstreamsReady(c.ctx, timeout)
}

func (c *ControlPlane) WaitDNSUpstreamAvailable(timeout time.Duration) error {
	if c == nil {
		return nil
	}
	return c.waitDNSUpstreamAvailable(c.ctx, timeout)
}

func (c *ControlPlane) StartPreparedDNSListener() error {
	if c == nil {
		return nil
	}
	return c.startPreparedDNSListener(c.ctx, c.log, &c.deferFuncs, c.stopOwnedDNSListener)
}
