package control

import (
	"net/netip"
	"slices"
	"sync/atomic"
	"time"

	dnsmessage "github.com/miekg/dns"
)
import verifsim "github.com/daeuniverse/dae/internal/verifsim"

var _ = verifsim.Yield

const ttlRefreshThresholdSeconds = 15

const (
	MinBpfUpdateInterval	= 1 * time.Second

	MaxBpfUpdateInterval	= 60 * time.Second
)

type DnsCache struct {
	RouteOwnerKey		string
	DomainBitmap		[]uint32
	Answer			[]dnsmessage.RR
	NS			[]dnsmessage.RR
	Extra			[]dnsmessage.RR
	Deadline		time.Time
	OriginalDeadline	time.Time	// This field is not impacted by `fixed_domain_ttl`.

	// routeLive reports whether this entry is still the one stored under its cache
	// key. Set when the entry is published; the domain routing tracker consults it
	// under its own lock so that a late update of a replaced or evicted entry cannot
	// overwrite (or resurrect) what the cache no longer holds.
	routeLive	func() bool

	// lastRouteSyncNano tracks when route binding was last synced to BPF.
	lastRouteSyncNano	atomic.Int64

	// lastBpfDataHash stores a hash of the data used for BPF update.
	// This enables differential updates - only update when data changes.
	lastBpfDataHash	atomic.Uint64

	// packedResponse is a pre-packed DNS response message with compression enabled.
	// This avoids repeated Pack() calls on cache hits, significantly reducing latency.
	// The packed response includes: Answer, Rcode=Success, Response=true, RecursionAvailable=true.
	// Note: DNS Message ID is NOT included and must be patched by the caller.
	//
	// OPTIMIZATION: Uses Copy-on-Write with atomic.Pointer for lock-free reads.
	// This eliminates the performance bottleneck in the hot path (cache hits).
	// Readers never block - they always get a valid (possibly stale) response immediately.
	//
	// Thread-safe access: Use GetPackedResponse() for atomic load.
	// Internal use: ptr := c.packedResponse.Load(); if ptr != nil { data := *ptr }
	packedResponse	atomic.Pointer[[]byte]
	// packedResponseTTL is the TTL used when creating packedResponse.
	// Used to determine if refresh is needed (when TTL difference > threshold).
	packedResponseTTL	atomic.Uint32
	// packedResponseCreatedAt is the time when packedResponse was created.
	packedResponseCreatedAt	atomic.Int64	// UnixNano
	// deadlineNano caches the Deadline as UnixNano for fast comparison.
	// This avoids time.Time method calls on every cache hit.
	deadlineNano	atomic.Int64

	// OPTIMISTIC CACHE (RFC 8767): Stale-while-revalidate support
	// refreshing tracks whether background refresh is in progress.
	// This prevents multiple concurrent refresh attempts for the same cache key.
	refreshing	atomic.Bool

	// lastAccessNano tracks when this cache was last accessed (for LRU eviction).
	lastAccessNano	atomic.Int64
}

func ttlFromDeadline(deadline time.Time, now time.Time) uint32 {
	deadlineNano := deadline.UnixNano()
	nowNano := now.UnixNano()
	if deadlineNano <= nowNano {
		return 0
	}

	ttlSeconds := (deadlineNano - nowNano) / 1e9
	if ttlSeconds < 1 {
		return 1
	}
	return uint32(ttlSeconds)
}

func (c *DnsCache) GetPackedResponse() []byte {
	verifsim.Yield("dns_cache.go:108")
	ptr := c.packedResponse.Load()
	if ptr == nil {
		return nil
	}
	return *ptr
}

func (c *DnsCache) GetFqdn() string {
	if len(c.Answer) > 0 {
		return c.Answer[0].Header().Name
	}
	return ""
}

func (c *DnsCache) MarkRouteBindingRefreshed(now time.Time) {
	verifsim.Yield("dns_cache.go:123")
	c.lastRouteSyncNano.Store(now.UnixNano())
}

func (c *DnsCache) ShouldRefreshRouteBinding(now time.Time, minInterval time.Duration) bool {
	if minInterval <= 0 {
		return true
	}

	nowNano := now.UnixNano()
	verifsim.Yield("dns_cache.go:135")
	last := c.lastRouteSyncNano.Load()
	if last != 0 && nowNano-last < minInterval.Nanoseconds() {
		return false
	}
	verifsim.Yield("dns_cache.go:139")
	return c.lastRouteSyncNano.CompareAndSwap(last, nowNano)
}

func (c *DnsCache) ComputeBpfDataHash() uint64 {
	if len(c.Answer) == 0 {
		return 0
	}

	var hash uint64 = 14695981039346656037	// FNV-1a offset basis

	for _, ans := range c.Answer {
		var ipBytes []byte
		switch body := ans.(type) {
		case *dnsmessage.A:
			ipBytes = body.A
		case *dnsmessage.AAAA:
			ipBytes = body.AAAA
		}
		if len(ipBytes) > 0 {
			for _, b := range ipBytes {
				hash ^= uint64(b)
				hash *= 1099511628211
			}
		}
	}

	for _, v := range c.DomainBitmap {
		hash ^= uint64(v)
		hash *= 1099511628211
	}

	return hash
}

func (c *DnsCache) NeedsBpfUpdate(now time.Time) bool {
	nowNano := now.UnixNano()
	verifsim.Yield("dns_cache.go:188")
	lastSync := c.lastRouteSyncNano.Load()

	if lastSync == 0 {
		verifsim.Yield("dns_cache.go:192")
		return c.lastRouteSyncNano.CompareAndSwap(0, nowNano)
	}

	timeSinceLastSync := time.Duration(nowNano - lastSync)

	if timeSinceLastSync < MinBpfUpdateInterval {
		return false
	}

	if timeSinceLastSync >= MaxBpfUpdateInterval {
		verifsim.Yield("dns_cache.go:204")
		return c.lastRouteSyncNano.CompareAndSwap(lastSync, nowNano)
	}

	currentHash := c.ComputeBpfDataHash()
	if currentHash == 0 {

		return false
	}
	verifsim.Yield("dns_cache.go:214")

	lastHash := c.lastBpfDataHash.Load()
	if currentHash == lastHash {

		return false
	}
	verifsim.Yield("dns_cache.go:222")

	return c.lastRouteSyncNano.CompareAndSwap(lastSync, nowNano)
}

func (c *DnsCache) MarkBpfUpdated(now time.Time) {
	verifsim.Yield("dns_cache.go:228")
	c.lastRouteSyncNano.Store(now.UnixNano())
	verifsim.Yield("dns_cache.go:229")
	c.lastBpfDataHash.Store(c.ComputeBpfDataHash())
}

func (c *DnsCache) FillInto(req *dnsmessage.Msg) {
	req.Answer = nil
	if c.Answer != nil {
		req.Answer = make([]dnsmessage.RR, len(c.Answer))
		for i, rr := range c.Answer {
			req.Answer[i] = dnsmessage.Copy(rr)
		}
	}
	req.Ns = nil
	if c.NS != nil {
		req.Ns = make([]dnsmessage.RR, len(c.NS))
		for i, rr := range c.NS {
			req.Ns[i] = dnsmessage.Copy(rr)
		}
	}
	req.Extra = nil
	if c.Extra != nil {
		req.Extra = make([]dnsmessage.RR, len(c.Extra))
		for i, rr := range c.Extra {
			req.Extra[i] = dnsmessage.Copy(rr)
		}
	}

	req.Rcode = dnsmessage.RcodeSuccess
	req.Response = true
	req.RecursionAvailable = true
	req.Truncated = false
}

func (c *DnsCache) FillIntoWithPacked(req *dnsmessage.Msg) []byte {
	verifsim.Yield("dns_cache.go:266")

	packedPtr := c.packedResponse.Load()
	if packedPtr != nil && *packedPtr != nil {

		return *packedPtr
	}

	c.FillInto(req)
	req.Compress = true
	b, err := req.Pack()
	if err != nil {
		return nil
	}
	return b
}

func (c *DnsCache) Clone() *DnsCache {
	newCache := &DnsCache{
		RouteOwnerKey:		c.RouteOwnerKey,
		Deadline:		c.Deadline,
		OriginalDeadline:	c.OriginalDeadline,
	}

	if c.DomainBitmap != nil {
		newCache.DomainBitmap = slices.Clone(c.DomainBitmap)
	}

	if c.Answer != nil {
		newCache.Answer = make([]dnsmessage.RR, len(c.Answer))
		for i, rr := range c.Answer {
			newCache.Answer[i] = dnsmessage.Copy(rr)
		}
	}
	if c.NS != nil {
		newCache.NS = make([]dnsmessage.RR, len(c.NS))
		for i, rr := range c.NS {
			newCache.NS[i] = dnsmessage.Copy(rr)
		}
	}
	if c.Extra != nil {
		newCache.Extra = make([]dnsmessage.RR, len(c.Extra))
		for i, rr := range c.Extra {
			newCache.Extra[i] = dnsmessage.Copy(rr)
		}
	}
	verifsim.Yield("dns_cache.go:312")

	if packedPtr := c.packedResponse.Load(); packedPtr != nil && *packedPtr != nil {
		packedCopy := slices.Clone(*packedPtr)
		verifsim.Yield("dns_cache.go:314")
		newCache.packedResponse.Store(&packedCopy)
		verifsim.Yield("dns_cache.go:315")
		newCache.packedResponseTTL.Store(c.packedResponseTTL.Load())
		verifsim.Yield("dns_cache.go:316")
		newCache.packedResponseCreatedAt.Store(c.packedResponseCreatedAt.Load())
	}
	verifsim.Yield("dns_cache.go:319")

	newCache.deadlineNano.Store(c.deadlineNano.Load())
	verifsim.Yield("dns_cache.go:320")
	newCache.lastRouteSyncNano.Store(0)
	verifsim.Yield("dns_cache.go:321")
	newCache.lastBpfDataHash.Store(0)

	return newCache

}

func (c *DnsCache) CloneForReload() *DnsCache {
	newCache := &DnsCache{
		RouteOwnerKey:		c.RouteOwnerKey,
		Answer:			c.Answer,
		NS:			c.NS,
		Extra:			c.Extra,
		Deadline:		c.Deadline,
		OriginalDeadline:	c.OriginalDeadline,
	}
	verifsim.Yield("dns_cache.go:347")

	if packedPtr := c.packedResponse.Load(); packedPtr != nil && *packedPtr != nil {
		verifsim.Yield("dns_cache.go:351")

		newCache.packedResponse.Store(packedPtr)
		verifsim.Yield("dns_cache.go:352")
		newCache.packedResponseTTL.Store(c.packedResponseTTL.Load())
		verifsim.Yield("dns_cache.go:353")
		newCache.packedResponseCreatedAt.Store(c.packedResponseCreatedAt.Load())
	}
	verifsim.Yield("dns_cache.go:356")

	deadlineNano := c.deadlineNano.Load()
	if deadlineNano == 0 && !c.Deadline.IsZero() {
		deadlineNano = c.Deadline.UnixNano()
	}
	verifsim.Yield("dns_cache.go:360")
	newCache.deadlineNano.Store(deadlineNano)
	verifsim.Yield("dns_cache.go:361")
	newCache.lastAccessNano.Store(c.lastAccessNano.Load())
	verifsim.Yield("dns_cache.go:362")
	newCache.lastRouteSyncNano.Store(0)
	verifsim.Yield("dns_cache.go:363")
	newCache.lastBpfDataHash.Store(0)
	verifsim.Yield("dns_cache.go:364")
	newCache.refreshing.Store(false)

	return newCache
}

func (c *DnsCache) PrepackResponse(qname string, qtype uint16) error {
	now := time.Now()
	verifsim.Yield("dns_cache.go:378")

	c.deadlineNano.Store(c.Deadline.UnixNano())

	return c.prepackResponseWithTTL(qname, qtype, ttlFromDeadline(c.Deadline, now), now)
}

func ttlScratchSlice(n int, stack *[8]uint32) []uint32 {
	if n <= len(stack) {
		return stack[:n]
	}
	return make([]uint32, n)
}

func setSectionTTL(rrs []dnsmessage.RR, ttl uint32, scratch []uint32) {
	for i, rr := range rrs {
		hdr := rr.Header()
		scratch[i] = hdr.Ttl
		hdr.Ttl = ttl
	}
}

func restoreSectionTTL(rrs []dnsmessage.RR, scratch []uint32) {
	for i, rr := range rrs {
		rr.Header().Ttl = scratch[i]
	}
}

func (c *DnsCache) prepackResponseBeforeStore(qname string, qtype uint16, ttl uint32, now time.Time) error {
	var question [1]dnsmessage.Question
	question[0] = dnsmessage.Question{Name: qname, Qtype: qtype, Qclass: dnsmessage.ClassINET}

	msg := dnsmessage.Msg{
		MsgHdr: dnsmessage.MsgHdr{
			Rcode:			dnsmessage.RcodeSuccess,
			Response:		true,
			RecursionAvailable:	true,
			RecursionDesired:	true,
			Truncated:		false,
		},
		Question:	question[:],
		Answer:		c.Answer,
		Ns:		c.NS,
		Extra:		c.Extra,
		Compress:	true,
	}

	var (
		answerStack	[8]uint32
		nsStack		[8]uint32
		extraStack	[8]uint32
	)
	answerTTLs := ttlScratchSlice(len(c.Answer), &answerStack)
	nsTTLs := ttlScratchSlice(len(c.NS), &nsStack)
	extraTTLs := ttlScratchSlice(len(c.Extra), &extraStack)

	setSectionTTL(c.Answer, ttl, answerTTLs)
	setSectionTTL(c.NS, ttl, nsTTLs)
	setSectionTTL(c.Extra, ttl, extraTTLs)
	defer func() {
		restoreSectionTTL(c.Extra, extraTTLs)
		restoreSectionTTL(c.NS, nsTTLs)
		restoreSectionTTL(c.Answer, answerTTLs)
	}()

	packed, err := msg.Pack()
	if err != nil {
		return err
	}
	verifsim.Yield("dns_cache.go:451")

	c.packedResponse.Store(&packed)
	verifsim.Yield("dns_cache.go:452")
	c.packedResponseTTL.Store(ttl)
	verifsim.Yield("dns_cache.go:453")
	c.packedResponseCreatedAt.Store(now.UnixNano())
	return nil
}

func (c *DnsCache) prepackResponseWithTTL(qname string, qtype uint16, ttl uint32, now time.Time) error {
	msg := &dnsmessage.Msg{
		MsgHdr: dnsmessage.MsgHdr{
			Rcode:			dnsmessage.RcodeSuccess,
			Response:		true,
			RecursionAvailable:	true,
			RecursionDesired:	true,
			Truncated:		false,
		},
		Question: []dnsmessage.Question{
			{Name: qname, Qtype: qtype, Qclass: dnsmessage.ClassINET},
		},
		Compress:	true,
	}

	if c.Answer != nil {
		msg.Answer = make([]dnsmessage.RR, len(c.Answer))
		for i, rr := range c.Answer {
			copiedRR := dnsmessage.Copy(rr)
			copiedRR.Header().Ttl = ttl
			msg.Answer[i] = copiedRR
		}
	}
	if c.NS != nil {
		msg.Ns = make([]dnsmessage.RR, len(c.NS))
		for i, rr := range c.NS {
			copiedRR := dnsmessage.Copy(rr)
			copiedRR.Header().Ttl = ttl
			msg.Ns[i] = copiedRR
		}
	}
	if c.Extra != nil {
		msg.Extra = make([]dnsmessage.RR, len(c.Extra))
		for i, rr := range c.Extra {
			copiedRR := dnsmessage.Copy(rr)
			copiedRR.Header().Ttl = ttl
			msg.Extra[i] = copiedRR
		}
	}

	packed, err := msg.Pack()
	if err != nil {
		return err
	}
	verifsim.Yield("dns_cache.go:505")

	c.packedResponse.Store(&packed)
	verifsim.Yield("dns_cache.go:506")
	c.packedResponseTTL.Store(ttl)
	verifsim.Yield("dns_cache.go:507")
	c.packedResponseCreatedAt.Store(now.UnixNano())
	return nil
}

func (c *DnsCache) GetPackedResponseWithApproximateTTL(qname string, qtype uint16, now time.Time) []byte {
	nowNano := now.UnixNano()
	verifsim.Yield("dns_cache.go:520")
	deadlineNano := c.deadlineNano.Load()

	if deadlineNano <= nowNano {
		return nil
	}

	currentTTL := uint32((deadlineNano - nowNano) / 1e9)
	if currentTTL == 0 {
		currentTTL = 1
	}

	withinTolerance := func(cachedTTL uint32) bool {
		if cachedTTL >= currentTTL {
			return cachedTTL-currentTTL <= ttlRefreshThresholdSeconds
		}
		return currentTTL-cachedTTL <= ttlRefreshThresholdSeconds
	}
	verifsim.Yield("dns_cache.go:542")

	cachedTTL := c.packedResponseTTL.Load()
	verifsim.Yield("dns_cache.go:543")
	packedPtr := c.packedResponse.Load()
	if packedPtr != nil && *packedPtr != nil && withinTolerance(cachedTTL) {
		return *packedPtr
	}
	verifsim.Yield("dns_cache.go:550")

	createdNano := c.packedResponseCreatedAt.Load()
	if nowNano-createdNano > 1e9 {
		verifsim.Yield("dns_cache.go:552")
		if c.packedResponseCreatedAt.CompareAndSwap(createdNano, nowNano) {

			if err := c.prepackResponseWithTTL(qname, qtype, currentTTL, now); err != nil {
				verifsim.Yield("dns_cache.go:557")

				c.packedResponseCreatedAt.Store(createdNano)
			}
		}
	}
	verifsim.Yield("dns_cache.go:565")

	cachedTTL = c.packedResponseTTL.Load()
	verifsim.Yield("dns_cache.go:566")
	packedPtr = c.packedResponse.Load()
	if packedPtr == nil || *packedPtr == nil || !withinTolerance(cachedTTL) {
		return nil
	}
	return *packedPtr
}

func (c *DnsCache) GetStaleResponse(now time.Time, staleTtl int) []byte {
	nowNano := now.UnixNano()
	verifsim.Yield("dns_cache.go:580")
	deadlineNano := c.deadlineNano.Load()

	if deadlineNano > nowNano {
		return nil
	}

	if staleTtl > 0 {
		staleNano := deadlineNano + int64(staleTtl)*1e9
		if nowNano > staleNano {

			return nil
		}
	}
	verifsim.Yield("dns_cache.go:598")

	packedPtr := c.packedResponse.Load()
	if packedPtr == nil || *packedPtr == nil {
		return nil
	}
	return *packedPtr
}

func (c *DnsCache) IsRefreshing() bool {
	verifsim.Yield("dns_cache.go:608")
	return c.refreshing.Load()
}

func (c *DnsCache) MarkRefreshed() {
	verifsim.Yield("dns_cache.go:614")
	c.refreshing.Store(false)
}

func (c *DnsCache) fillIntoWithTTLInPlace(req *dnsmessage.Msg, now time.Time) []byte {
	if req == nil {
		return nil
	}
	req.Answer = nil
	req.Rcode = dnsmessage.RcodeSuccess
	req.Response = true
	req.RecursionAvailable = true
	req.Truncated = false

	if c.Answer == nil {
		req.Compress = true
		b, _ := req.Pack()
		return b
	}

	remainingTTL := ttlFromDeadline(c.Deadline, now)

	req.Answer = make([]dnsmessage.RR, len(c.Answer))
	for i, rr := range c.Answer {
		copiedRR := dnsmessage.Copy(rr)

		copiedRR.Header().Ttl = remainingTTL
		req.Answer[i] = copiedRR
	}

	req.Compress = true
	b, err := req.Pack()
	if err != nil {
		return nil
	}
	return b
}

func (c *DnsCache) FillIntoWithTTL(req *dnsmessage.Msg, now time.Time) []byte {
	if req == nil {
		return nil
	}
	resp := req.Copy()
	if resp == nil {
		return nil
	}
	return c.fillIntoWithTTLInPlace(resp, now)
}

func (c *DnsCache) IncludeIp(ip netip.Addr) bool {
	for _, ans := range c.Answer {
		if a, ok := dnsAnswerIP(ans); ok && a == ip {
			return true
		}
	}
	return false
}

func (c *DnsCache) IncludeAnyIp() bool {
	for _, ans := range c.Answer {
		switch ans.(type) {
		case *dnsmessage.A, *dnsmessage.AAAA:
			return true
		}
	}
	return false
}

func dnsAnswerIP(rr dnsmessage.RR) (netip.Addr, bool) {
	switch body := rr.(type) {
	case *dnsmessage.A:
		return netip.AddrFromSlice(body.A)
	case *dnsmessage.AAAA:
		return netip.AddrFromSlice(body.AAAA)
	default:
		return netip.Addr{}, false
	}
}
