package control

import (
	"context"
	"encoding/binary"
	"errors"
	"fmt"
	"net"
	"net/netip"
	"strconv"
	"strings"
	"sync"
	"sync/atomic"
	"time"

	"github.com/daeuniverse/dae/common/consts"
	commonerrors "github.com/daeuniverse/dae/common/errors"
	"github.com/daeuniverse/dae/common/netutils"
	"github.com/daeuniverse/dae/component/dns"
	"github.com/daeuniverse/dae/component/outbound"
	"github.com/daeuniverse/dae/component/outbound/dialer"
	dnsmessage "github.com/miekg/dns"
	"github.com/sirupsen/logrus"
	"golang.org/x/sync/singleflight"
)
import verifsim "github.com/daeuniverse/dae/internal/verifsim"

var _ = verifsim.Yield
var _ sync.Locker

var dnsResponseBufPool = verifsim.Pool{
	New: func() any {
		buf := make([]byte, 1024)
		return &buf
	},
}

const (
	MaxDnsLookupDepth	= 3
	minFirefoxCacheTtl	= 120
)

type IpVersionPrefer int

const (
	IpVersionPrefer_No	IpVersionPrefer	= 0
	IpVersionPrefer_4	IpVersionPrefer	= 4
	IpVersionPrefer_6	IpVersionPrefer	= 6
)

var (
	ErrUnsupportedQuestionType		= fmt.Errorf("unsupported question type")
	ErrDNSQueryConcurrencyLimitExceeded	= errors.New("dns query concurrency limit exceeded")
	ErrDNSUDPConnPoolExhausted		= errors.New("dns udp conn pool exhausted")
	ErrDNSTruncated				= errors.New("dns response truncated")
)

var (
	UnspecifiedAddressA		= netip.MustParseAddr("0.0.0.0")
	UnspecifiedAddressAAAA		= netip.MustParseAddr("::")
	DnsCacheRouteRefreshInterval	= 10 * time.Second
	dnsCacheJanitorInterval		= 30 * time.Second
	dnsForwarderIdleTTL		= 2 * time.Minute
)

type DnsControllerOption struct {
	Log			*logrus.Logger
	LifecycleContext	context.Context
	CacheAccessCallback	func(cache *DnsCache) (err error)
	CacheRemoveCallback	func(cache *DnsCache) (err error)
	CacheDeleteCallback	func(cacheKey string, cache *DnsCache) (err error)
	NewCache		func(fqdn string, answers, ns, extra []dnsmessage.RR, deadline time.Time, originalDeadline time.Time) (cache *DnsCache, err error)
	BestDialerChooser	func(ctx context.Context, req *udpRequest, upstream *dns.Upstream) (*dialArgument, error)
	TimeoutExceedCallback	func(dialArgument *dialArgument, err error)
	IpVersionPrefer		int
	FixedDomainTtl		map[string]int
	ConcurrencyLimit	int
	OptimisticCache		bool
	OptimisticCacheTtl	int	// 0 means never expire (rely on LRU eviction)
	MaxCacheSize		int	// maximum number of cache entries (0 = unlimited)
}

type dnsControllerRuntimeState struct {
	routing			*dns.Dns
	lifecycleCtx		context.Context
	cacheAccessCallback	func(cache *DnsCache) (err error)
	cacheRemoveCallback	func(cache *DnsCache) (err error)
	cacheDeleteCallback	func(cacheKey string, cache *DnsCache) (err error)
	newCache		func(fqdn string, answers, ns, extra []dnsmessage.RR, deadline time.Time, originalDeadline time.Time) (cache *DnsCache, err error)
	bestDialerChooser	func(ctx context.Context, req *udpRequest, upstream *dns.Upstream) (*dialArgument, error)
	timeoutExceedCallback	func(dialArgument *dialArgument, err error)
	fixedDomainTtl		map[string]int
}

type dnsControllerStore struct {
	// dnsCache uses sync.Map for lock-free concurrent access
	dnsCache		verifsim.Map	// map[string]*DnsCache
	dnsKnowledge		verifsim.Map	// map[string]int64 (base cache key -> original deadline unix nano)
	dnsKnowledgeMu		verifsim.Mutex
	dnsForwarderCache	verifsim.Map	// map[dnsForwarderKey]*cachedDnsForwarder
	sf			singleflight.Group

	janitorStop	chan struct{}
	janitorDone	chan struct{}
	evictorDone	chan struct{}
	evictorQ	chan *DnsCache
	evictorWake	chan struct{}
	evictorChMu	verifsim.RWMutex
	evictorMu	verifsim.Mutex
	evictorBuf	[]*DnsCache
	lruScratchMu	verifsim.Mutex
	lruScratch	[]cacheEntry
	closeOnce	verifsim.Once

	// Async BPF update: uses a single goroutine with bounded channel
	// to process BPF map updates off the hot path.
	bpfUpdateCh	chan *bpfUpdateTask
	bpfUpdateStop	chan struct{}
	bpfUpdateStopMu	verifsim.Mutex	// Protects bpfUpdateStop initialization and closing
	bpfUpdateWg	sync.WaitGroup
	bpfUpdateOnce	verifsim.Once
	bpfUpdateClosed	atomic.Bool

	// prefWaitRegistry manages waits for preferred DNS response types.
	// When ip_version_prefer is set, non-preferred responses wait briefly
	// for preferred responses to arrive (RFC 8305 Happy Eyeballs).
	prefWaitRegistry	*preferenceWaitRegistry
}

type DnsController struct {
	*dnsControllerStore

	concurrencyLimiter	chan struct{}

	qtypePrefer		atomic.Uint32
	optimisticCacheEnabled	atomic.Bool
	optimisticCacheTtl	atomic.Int64	// seconds, 0 means never expire
	maxCacheSize		atomic.Int64	// maximum number of cache entries (0 = unlimited)
	dnsForwarderIdleTTL	time.Duration
	log			*logrus.Logger
	runtimeState		atomic.Pointer[dnsControllerRuntimeState]
}

func newDnsControllerStore() *dnsControllerStore {
	return &dnsControllerStore{
		dnsCache:		verifsim.Map{},
		dnsForwarderCache:	verifsim.Map{},
		janitorStop:		make(chan struct{}),
		janitorDone:		make(chan struct{}),
		evictorDone:		make(chan struct{}),
		evictorQ:		make(chan *DnsCache, 512),
		evictorWake:		make(chan struct{}, 1),
		prefWaitRegistry:	newPreferenceWaitRegistry(),
	}
}

func normalizeDnsRuntimeBehavior(option *DnsControllerOption) (qtypePrefer uint16, optimisticCacheEnabled bool, optimisticCacheTtl int, maxCacheSize int, err error) {
	if option == nil {
		option = &DnsControllerOption{}
	}
	qtypePrefer, err = parseIpVersionPreference(option.IpVersionPrefer)
	if err != nil {
		return 0, false, 0, 0, err
	}
	optimisticCacheTtl = option.OptimisticCacheTtl
	maxCacheSize = option.MaxCacheSize
	if optimisticCacheTtl == 0 && maxCacheSize == 0 {
		optimisticCacheTtl = 60
	}
	return qtypePrefer, option.OptimisticCache, optimisticCacheTtl, maxCacheSize, nil
}

func (c *DnsController) requireStore() *dnsControllerStore {
	if c == nil {
		return nil
	}
	if c.dnsControllerStore == nil {

		panic("DnsController.dnsControllerStore is nil; construct controllers with NewDnsController or test helpers")
	}
	return c.dnsControllerStore
}

func (c *DnsController) ensureStoreForReload() *dnsControllerStore {
	if c == nil {
		return nil
	}
	if c.dnsControllerStore == nil {
		c.dnsControllerStore = newDnsControllerStore()
	}
	return c.dnsControllerStore
}

func (c *DnsController) copyBehaviorConfigTo(dst *DnsController) {
	if c == nil || dst == nil {
		return
	}
	verifsim.Yield("dns_control.go:209")
	dst.qtypePrefer.Store(c.qtypePrefer.Load())
	verifsim.Yield("dns_control.go:210")
	dst.optimisticCacheEnabled.Store(c.optimisticCacheEnabled.Load())
	verifsim.Yield("dns_control.go:211")
	dst.optimisticCacheTtl.Store(c.optimisticCacheTtl.Load())
	verifsim.Yield("dns_control.go:212")
	dst.maxCacheSize.Store(c.maxCacheSize.Load())
}

func (c *DnsController) sharedStoreFacade() *DnsController {
	if c == nil {
		return nil
	}
	store := c.requireStore()
	facade := &DnsController{
		dnsControllerStore:	store,
		concurrencyLimiter:	c.concurrencyLimiter,
		dnsForwarderIdleTTL:	c.dnsForwarderIdleTTL,
		log:			c.log,
	}
	c.copyBehaviorConfigTo(facade)
	if rt := c.runtime(); rt != nil {
		verifsim.Yield("dns_control.go:228")
		facade.runtimeState.Store(rt)
	}
	return facade
}

func (c *DnsController) currentQtypePrefer() uint16 {
	if c == nil {
		return 0
	}
	verifsim.Yield("dns_control.go:237")
	return uint16(c.qtypePrefer.Load())
}

func (c *DnsController) currentOptimisticCacheConfig() (enabled bool, ttl int, maxCacheSize int) {
	if c == nil {
		return false, 0, 0
	}
	verifsim.Yield("dns_control.go:244")
	return c.optimisticCacheEnabled.Load(), int(c.optimisticCacheTtl.Load()), int(c.maxCacheSize.Load())
}

func (c *DnsController) ReuseForReload(option *DnsControllerOption, routing *dns.Dns) (*DnsController, error) {
	if c == nil {
		return nil, nil
	}
	c.ensureStoreForReload()
	if err := c.TryUpdateRuntime(option, routing); err != nil {
		return nil, err
	}
	if err := c.ResetDnsForwarders(); err != nil && c.log != nil {
		c.log.WithError(err).Warn("failed to retire stale DNS forwarders during reload reuse")
	}
	return c.sharedStoreFacade(), nil
}

func (c *DnsController) CloneCacheForReload() map[string]*DnsCache {
	if c == nil || c.dnsControllerStore == nil {
		return nil
	}
	result := make(map[string]*DnsCache)
	verifsim.Yield("dns_control.go:273")
	c.dnsCache.Range(func(key, value any) bool {
		k, ok1 := key.(string)
		v, ok2 := value.(*DnsCache)
		if ok1 && ok2 {
			result[k] = v.CloneForReload()
		} else if c.log != nil {
			c.log.Errorf("CloneCacheForReload: invalid type found in sync.Map: key=%T, value=%T", key, value)
		}
		return true
	})
	return result
}

func (c *DnsController) dnsCacheEntryLive(cacheKey string, entry *DnsCache) func() bool {
	return func() bool {
		verifsim.Yield("dns_control.go:290")
		cur, ok := c.dnsCache.Load(cacheKey)
		return ok && cur == any(entry)
	}
}

func (c *DnsController) RestoreReloadCache(entries map[string]*DnsCache, matchDomainBitmap func(string) []uint32, now time.Time) int {
	if c == nil || len(entries) == 0 {
		return 0
	}
	c.requireStore()
	count := 0
	for _, k := range verifsim.SortedKeys(entries) {
		v, _vok1 := entries[k]
		if !_vok1 {
			continue
		}
		if v == nil {
			continue
		}
		if matchDomainBitmap != nil {
			v.DomainBitmap = matchDomainBitmap(v.GetFqdn())
		}
		v.routeLive = c.dnsCacheEntryLive(k, v)
		verifsim.Yield("dns_control.go:309")
		c.dnsCache.Store(k, v)
		c.rememberDnsKnowledge(dnsCacheBaseKey(k), v.OriginalDeadline)
		c.triggerBpfUpdateIfNeeded(v, now)
		count++
	}
	return count
}

type bpfUpdateTask struct {
	cache	*DnsCache
	now	time.Time
}

type cacheEntry struct {
	key		string
	lastAccess	int64
}

func parseIpVersionPreference(prefer int) (uint16, error) {
	switch prefer := IpVersionPrefer(prefer); prefer {
	case IpVersionPrefer_No:
		return 0, nil
	case IpVersionPrefer_4:
		return dnsmessage.TypeA, nil
	case IpVersionPrefer_6:
		return dnsmessage.TypeAAAA, nil
	default:
		return 0, fmt.Errorf("unknown preference: %v", prefer)
	}
}

func NewDnsController(routing *dns.Dns, option *DnsControllerOption) (c *DnsController, err error) {
	if option == nil {
		option = &DnsControllerOption{}
	}

	prefer, optimisticCacheEnabled, optimisticCacheTtl, maxCacheSize, err := normalizeDnsRuntimeBehavior(option)
	if err != nil {
		return nil, err
	}

	// Set concurrency limit for DNS queries
	// This prevents resource exhaustion from DNS query storms.
	//
	// Best Practice (based on CoreDNS/AdGuard Home):
	// Go DNS apps typically don't have hard concurrency limits because:
	// - Go goroutines are lightweight (~2KB stack)
	// - Real bottleneck is upstream latency, not goroutine count
	//
	// However, for proxy chains (Shadowsocks/VMess), each query takes longer,
	// so we need a higher limit to maintain throughput.
	//
	// Memory calculation: Each concurrent query uses ~4KB
	//   * 16384 concurrent = ~64MB memory (default)
	//   * 32768 concurrent = ~128MB memory
	//
	// Comparison with other DNS apps:
	//   * CoreDNS: No hard limit (relies on Go runtime)
	//   * AdGuard Home: No hard limit
	//   * Unbound (C): 10000 (outgoing-range)
	//   * PowerDNS: 2048 (max-mthreads)
	//
	// Default: 16384 (suitable for proxy scenarios)
	// - Handles up to ~8000 QPS with 2s upstream latency
	// - Memory usage: ~64MB for concurrent queries
	//
	// Configuration:
	// - <= 0: Use default (16384)
	// - > 0: Use specified value
	const defaultConcurrencyLimit = 16384
	limit := option.ConcurrencyLimit
	if limit <= 0 {
		limit = defaultConcurrencyLimit
	}

	controller := &DnsController{
		dnsControllerStore:	newDnsControllerStore(),
		concurrencyLimiter:	make(chan struct{}, limit),
		log:			option.Log,
		dnsForwarderIdleTTL:	dnsForwarderIdleTTL,
	}
	verifsim.Yield("dns_control.go:392")
	controller.qtypePrefer.Store(uint32(prefer))
	verifsim.Yield("dns_control.go:393")
	controller.optimisticCacheEnabled.Store(optimisticCacheEnabled)
	verifsim.Yield("dns_control.go:394")
	controller.optimisticCacheTtl.Store(int64(optimisticCacheTtl))
	verifsim.Yield("dns_control.go:395")
	controller.maxCacheSize.Store(int64(maxCacheSize))
	if err := controller.TryUpdateRuntime(option, routing); err != nil {
		return nil, err
	}
	controller.startDnsCacheJanitor()
	controller.startCacheEvictor()
	return controller, nil
}

func (c *DnsController) updateRuntime(option *DnsControllerOption, routing *dns.Dns) error {
	if c == nil {
		return nil
	}
	c.requireStore()
	if option == nil {
		option = &DnsControllerOption{}
	}
	qtypePrefer, optimisticCacheEnabled, optimisticCacheTtl, maxCacheSize, err := normalizeDnsRuntimeBehavior(option)
	if err != nil {
		return err
	}
	verifsim.Yield("dns_control.go:416")
	c.qtypePrefer.Store(uint32(qtypePrefer))
	verifsim.Yield("dns_control.go:417")
	c.optimisticCacheEnabled.Store(optimisticCacheEnabled)
	verifsim.Yield("dns_control.go:418")
	c.optimisticCacheTtl.Store(int64(optimisticCacheTtl))
	verifsim.Yield("dns_control.go:419")
	c.maxCacheSize.Store(int64(maxCacheSize))
	c.log = option.Log
	lifecycleCtx := option.LifecycleContext
	if lifecycleCtx == nil {
		lifecycleCtx = context.Background()
	}
	verifsim.Yield("dns_control.go:425")
	c.runtimeState.Store(&dnsControllerRuntimeState{
		routing:		routing,
		lifecycleCtx:		lifecycleCtx,
		cacheAccessCallback:	option.CacheAccessCallback,
		cacheRemoveCallback:	option.CacheRemoveCallback,
		cacheDeleteCallback:	option.CacheDeleteCallback,
		newCache:		option.NewCache,
		bestDialerChooser:	option.BestDialerChooser,
		timeoutExceedCallback:	option.TimeoutExceedCallback,
		fixedDomainTtl:		option.FixedDomainTtl,
	})
	return nil
}

func (c *DnsController) runtime() *dnsControllerRuntimeState {
	if c == nil {
		return nil
	}
	verifsim.Yield("dns_control.go:443")
	return c.runtimeState.Load()
}

func (c *DnsController) TryUpdateRuntime(option *DnsControllerOption, routing *dns.Dns) error {
	return c.updateRuntime(option, routing)
}

func (c *DnsController) UpdateRuntime(option *DnsControllerOption, routing *dns.Dns) {
	if err := c.TryUpdateRuntime(option, routing); err != nil {
		panic(err)
	}
}

func (c *DnsController) baseContext() context.Context {
	if rt := c.runtime(); rt != nil && rt.lifecycleCtx != nil {
		return rt.lifecycleCtx
	}
	return context.Background()
}

func (c *DnsController) newWorkContext(timeout time.Duration) (context.Context, context.CancelFunc) {
	return context.WithTimeout(c.baseContext(), timeout)
}

func (c *DnsController) Close() error {
	if c == nil || c.dnsControllerStore == nil {
		return nil
	}
	var (
		bpfWorkerDone	<-chan struct{}
		janitorDone	<-chan struct{}
		evictorDone	<-chan struct{}
	)
	verifsim.Yield("dns_control.go:484")

	c.bpfUpdateStopMu.Lock()
	verifsim.Yield("dns_control.go:485")
	c.closeOnce.Do(func() {
		verifsim.Yield("dns_control.go:486")
		c.bpfUpdateClosed.Store(true)

		if c.bpfUpdateStop != nil {
			verifsim.Yield("dns_control.go:490")

			close(c.bpfUpdateStop)

			done := make(chan struct{})
			verifsim.Go("dns_control.go:493", func() {
				verifsim.Yield("dns_control.go:494")
				c.bpfUpdateWg.Wait()
				verifsim.Yield("dns_control.go:494+")
				verifsim.Yield("dns_control.go:495")
				close(done)
			})
			bpfWorkerDone = done

		}

		if c.janitorStop != nil {
			verifsim.Yield("dns_control.go:505")
			close(c.janitorStop)
		}
		if c.janitorDone != nil {
			janitorDone = c.janitorDone
		}
		if c.evictorDone != nil {
			evictorDone = c.evictorDone
		}
	})
	c.bpfUpdateStopMu.Unlock()

	if bpfWorkerDone != nil || janitorDone != nil || evictorDone != nil {
		timer := time.NewTimer(gracefulShutdownWaitTimeout)
		defer timer.Stop()

		for bpfWorkerDone != nil || janitorDone != nil || evictorDone != nil {
			{
				verifsim.Yield("dns_control.go:521")
				_vc2 := bpfWorkerDone
				_vc3 := janitorDone
				_vc4 := evictorDone
				_vc5 := timer.C
				_vi6 := -1
				for _, _vo7 := range verifsim.SelectOrder("dns_control.go:521", 4) {
					switch _vo7 {
					case 0:
						select {
						case <-_vc2:
							_vi6 = 0
						default:
						}
					case 1:
						select {
						case <-_vc3:
							_vi6 = 1
						default:
						}
					case 2:
						select {
						case <-_vc4:
							_vi6 = 2
						default:
						}
					case 3:
						select {
						case <-_vc5:
							_vi6 = 3
						default:
						}
					}
					if _vi6 >= 0 {
						break
					}
				}
				if _vi6 < 0 {
					select {
					case <-_vc2:
						_vi6 = 0
					case <-_vc3:
						_vi6 = 1
					case <-_vc4:
						_vi6 = 2
					case <-_vc5:
						_vi6 = 3
					}
					verifsim.Yield("dns_control.go:521+")
				}
				switch _vi6 {
				case 0:
					bpfWorkerDone = nil
				case 1:

					janitorDone = nil
				case 2:

					evictorDone = nil
				case 3:

					if c.log != nil {
						if bpfWorkerDone != nil {
							c.log.Warn("DnsController.Close: timeout waiting for bpfUpdateWg")
						}
						if janitorDone != nil {
							c.log.Warn("DnsController.Close: timeout waiting for janitorDone")
						}
						if evictorDone != nil {
							c.log.Warn("DnsController.Close: timeout waiting for evictorDone")
						}
					}
					bpfWorkerDone = nil
					janitorDone = nil
					evictorDone = nil
				default:
					panic("verifsim: select dispatch: no case chosen")
				}
			}

		}
	}

	errs := c.closeAllDnsForwarders()
	verifsim.Yield("dns_control.go:552")

	c.dnsCache.Range(func(key, value any) bool {
		verifsim.Yield("dns_control.go:553")
		c.dnsCache.Delete(key)
		return true
	})
	verifsim.Yield("dns_control.go:556")
	c.dnsKnowledge.Range(func(key, value any) bool {
		verifsim.Yield("dns_control.go:557")
		c.dnsKnowledge.Delete(key)
		return true
	})
	verifsim.Yield("dns_control.go:560")
	c.evictorMu.Lock()
	c.evictorBuf = nil
	c.evictorMu.Unlock()
	verifsim.Yield("dns_control.go:563")
	c.lruScratchMu.Lock()
	c.lruScratch = nil
	c.lruScratchMu.Unlock()
	verifsim.Yield("dns_control.go:566")
	c.evictorChMu.Lock()
	c.evictorWake = nil
	c.evictorQ = nil
	c.evictorChMu.Unlock()
	verifsim.Yield("dns_control.go:570")
	c.bpfUpdateStopMu.Lock()
	c.bpfUpdateCh = nil
	c.bpfUpdateStop = nil
	c.bpfUpdateStopMu.Unlock()

	return errors.Join(errs...)
}

func (c *DnsController) closeAllDnsForwarders() []error {
	if c == nil {
		return nil
	}
	var errs []error
	verifsim.Yield("dns_control.go:583")
	c.dnsForwarderCache.Range(func(key, value any) bool {
		k := key.(dnsForwarderKey)
		verifsim.Yield("dns_control.go:585")
		c.dnsForwarderCache.Delete(k)
		switch entry := value.(type) {
		case *cachedDnsForwarder:
			if err := entry.closeNow(); err != nil {
				errs = append(errs, fmt.Errorf("close dns forwarder %q: %w", k.upstream, err))
			}
		default:
			forwarder := c.extractDnsForwarder(value)
			if forwarder != nil {
				if err := forwarder.Close(); err != nil {
					errs = append(errs, fmt.Errorf("close dns forwarder %q: %w", k.upstream, err))
				}
			}
		}
		return true
	})
	return errs
}

func (c *DnsController) retireAllDnsForwarders() []error {
	if c == nil {
		return nil
	}
	var errs []error
	verifsim.Yield("dns_control.go:609")
	c.dnsForwarderCache.Range(func(key, value any) bool {
		k := key.(dnsForwarderKey)
		switch entry := value.(type) {
		case *cachedDnsForwarder:
			verifsim.Yield("dns_control.go:613")
			if !c.dnsForwarderCache.CompareAndDelete(k, entry) {
				return true
			}
			if err := entry.retire(); err != nil {
				errs = append(errs, fmt.Errorf("retire dns forwarder %q: %w", k.upstream, err))
			}
		default:
			verifsim.Yield("dns_control.go:620")
			if !c.dnsForwarderCache.CompareAndDelete(k, value) {
				return true
			}
			forwarder := c.extractDnsForwarder(value)
			if forwarder != nil {
				if err := forwarder.Close(); err != nil {
					errs = append(errs, fmt.Errorf("close dns forwarder %q: %w", k.upstream, err))
				}
			}
		}
		return true
	})
	return errs
}

func (c *DnsController) ResetDnsForwarders() error {
	if c == nil || c.dnsControllerStore == nil {
		return nil
	}

	return errors.Join(c.retireAllDnsForwarders()...)
}

var (
	qtypeStrCache = map[uint16]string{
		dnsmessage.TypeA:	"1",
		dnsmessage.TypeNS:	"2",
		dnsmessage.TypeCNAME:	"5",
		dnsmessage.TypePTR:	"12",
		dnsmessage.TypeMX:	"15",
		dnsmessage.TypeTXT:	"16",
		dnsmessage.TypeAAAA:	"28",
		dnsmessage.TypeSRV:	"33",
	}
)

func (c *DnsController) cacheKey(qname string, qtype uint16) string {

	qname = dnsmessage.CanonicalName(qname)

	if s, ok := qtypeStrCache[qtype]; ok {
		return qname + s
	}

	return qname + strconv.Itoa(int(qtype))
}

func dnsCacheBaseKey(cacheKey string) string {
	if before, _, ok := strings.Cut(cacheKey, "|"); ok {
		return before
	}
	return cacheKey
}

func (c *DnsController) responseCacheScope(req *udpRequest, upstreamIndex consts.DnsRequestOutboundIndex, upstream *dns.Upstream) string {
	switch upstreamIndex {
	case consts.DnsRequestOutboundIndex_AsIs:
		if req != nil && req.realDst.IsValid() {
			return "asis@" + req.realDst.String()
		}
		return "asis"
	case consts.DnsRequestOutboundIndex_Reject:
		return "reject"
	default:
		if upstream != nil {
			return "upstream@" + upstream.String()
		}
		if upstreamIndex != 0 {
			return "upstream-index@" + strconv.Itoa(int(upstreamIndex))
		}
		return ""
	}
}

func (c *DnsController) responseCacheKey(baseKey string, req *udpRequest, upstreamIndex consts.DnsRequestOutboundIndex, upstream *dns.Upstream) string {
	scope := c.responseCacheScope(req, upstreamIndex, upstream)
	if scope == "" {
		return baseKey
	}
	return baseKey + "|" + scope
}

func ensureDNSCacheRouteOwnerKey(cacheKey string, cache *DnsCache) *DnsCache {
	if cache == nil {
		return nil
	}
	if cache.RouteOwnerKey == "" {
		cache.RouteOwnerKey = cacheKey
	}
	return cache
}

func aggregateDNSRemovalCandidate(caches []*DnsCache) *DnsCache {
	var (
		base	*DnsCache
		answers	[]dnsmessage.RR
		seen	= make(map[netip.Addr]struct{})
	)

	for _, cache := range caches {
		if cache == nil {
			continue
		}
		if base == nil {
			base = cache
		}
		for _, ans := range cache.Answer {
			ip, ok := dnsAnswerIP(ans)
			if !ok || ip.IsUnspecified() {
				continue
			}
			if _, ok := seen[ip]; ok {
				continue
			}
			seen[ip] = struct{}{}
			answers = append(answers, ans)
		}
	}

	if base == nil || len(answers) == 0 {
		return nil
	}
	return &DnsCache{
		DomainBitmap:		base.DomainBitmap,
		Answer:			answers,
		Deadline:		base.Deadline,
		OriginalDeadline:	base.OriginalDeadline,
	}
}

func (c *DnsController) orphanedDnsSideEffects(baseKey string, candidate *DnsCache) *DnsCache {
	if candidate == nil {
		return nil
	}
	if baseKey == "" {
		return candidate
	}

	liveIPs := make(map[netip.Addr]struct{})
	verifsim.Yield("dns_control.go:766")
	c.dnsCache.Range(func(key, value any) bool {
		cacheKey, ok := key.(string)
		if !ok || dnsCacheBaseKey(cacheKey) != baseKey {
			return true
		}
		cache, ok := value.(*DnsCache)
		if !ok {
			verifsim.Yield("dns_control.go:773")
			c.dnsCache.Delete(cacheKey)
			return true
		}
		for _, ans := range cache.Answer {
			ip, ok := dnsAnswerIP(ans)
			if !ok || ip.IsUnspecified() {
				continue
			}
			liveIPs[ip] = struct{}{}
		}
		return true
	})

	if len(liveIPs) == 0 {
		return candidate
	}

	orphaned := make([]dnsmessage.RR, 0, len(candidate.Answer))
	for _, ans := range candidate.Answer {
		ip, ok := dnsAnswerIP(ans)
		if !ok || ip.IsUnspecified() {
			continue
		}
		if _, ok := liveIPs[ip]; ok {
			continue
		}
		orphaned = append(orphaned, ans)
	}

	if len(orphaned) == 0 {
		return nil
	}
	return &DnsCache{
		DomainBitmap:		candidate.DomainBitmap,
		Answer:			orphaned,
		Deadline:		candidate.Deadline,
		OriginalDeadline:	candidate.OriginalDeadline,
	}
}

func (c *DnsController) onBaseKeySideEffectsEvicted(baseKey string, candidate *DnsCache) {
	if cache := c.orphanedDnsSideEffects(baseKey, candidate); cache != nil {
		c.onDnsCacheEvicted(cache)
	}
}

func (c *DnsController) RemoveDnsRespCache(cacheKey string) {
	c.requireStore()
	verifsim.Yield("dns_control.go:821")
	if removed, ok := c.dnsCache.LoadAndDelete(cacheKey); ok {
		if cache, ok := removed.(*DnsCache); ok {
			baseKey := dnsCacheBaseKey(cacheKey)
			c.forgetDnsKnowledge(cacheKey, cache)
			c.invokeCacheDeleteCallback(cacheKey, cache)
			c.onBaseKeySideEffectsEvicted(baseKey, cache)
		}
	}
}

func (c *DnsController) RemoveDnsRespCacheFamily(baseKey string) {
	c.requireStore()
	if baseKey == "" {
		return
	}
	var removedCaches []*DnsCache
	verifsim.Yield("dns_control.go:837")
	c.dnsCache.Range(func(key, value any) bool {
		cacheKey, ok := key.(string)
		if !ok || dnsCacheBaseKey(cacheKey) != baseKey {
			return true
		}
		cache, ok := value.(*DnsCache)
		if !ok {
			verifsim.Yield("dns_control.go:844")
			c.dnsCache.Delete(cacheKey)
			return true
		}
		verifsim.Yield("dns_control.go:847")
		if c.dnsCache.CompareAndDelete(cacheKey, cache) {
			c.invokeCacheDeleteCallback(cacheKey, cache)
			removedCaches = append(removedCaches, cache)
		}
		return true
	})
	c.syncDnsKnowledge(baseKey)
	c.onBaseKeySideEffectsEvicted(baseKey, aggregateDNSRemovalCandidate(removedCaches))
}

func (c *DnsController) rememberDnsKnowledge(baseKey string, originalDeadline time.Time) {
	if baseKey == "" || originalDeadline.IsZero() {
		return
	}
	expiresAt := originalDeadline.UnixNano()
	verifsim.Yield("dns_control.go:862")
	c.dnsKnowledgeMu.Lock()
	defer c.dnsKnowledgeMu.Unlock()
	verifsim.Yield("dns_control.go:865")

	current, ok := c.dnsKnowledge.Load(baseKey)
	if !ok {
		verifsim.Yield("dns_control.go:867")
		c.dnsKnowledge.Store(baseKey, expiresAt)
		return
	}
	currentExpiresAt, ok := current.(int64)
	if !ok || currentExpiresAt < expiresAt {
		verifsim.Yield("dns_control.go:872")
		c.dnsKnowledge.Store(baseKey, expiresAt)
	}
}

func (c *DnsController) forgetDnsKnowledge(cacheKey string, cache *DnsCache) {
	baseKey := dnsCacheBaseKey(cacheKey)
	if baseKey == "" || cache == nil {
		return
	}

	deletedExpiresAt := cache.OriginalDeadline.UnixNano()
	verifsim.Yield("dns_control.go:884")

	c.dnsKnowledgeMu.Lock()
	defer c.dnsKnowledgeMu.Unlock()
	verifsim.Yield("dns_control.go:887")

	current, ok := c.dnsKnowledge.Load(baseKey)
	if !ok {
		return
	}
	currentExpiresAt, ok := current.(int64)
	if !ok {
		c.syncDnsKnowledgeLocked(baseKey)
		return
	}
	if deletedExpiresAt < currentExpiresAt {
		return
	}
	c.syncDnsKnowledgeLocked(baseKey)
}

func (c *DnsController) syncDnsKnowledge(baseKey string) {
	if baseKey == "" {
		return
	}
	verifsim.Yield("dns_control.go:906")
	c.dnsKnowledgeMu.Lock()
	defer c.dnsKnowledgeMu.Unlock()
	c.syncDnsKnowledgeLocked(baseKey)
}

func (c *DnsController) syncDnsKnowledgeLocked(baseKey string) {
	nowNano := time.Now().UnixNano()
	var maxExpiresAt int64
	verifsim.Yield("dns_control.go:915")

	c.dnsCache.Range(func(key, value any) bool {
		cacheKey, ok := key.(string)
		if !ok || dnsCacheBaseKey(cacheKey) != baseKey {
			return true
		}
		cache, ok := value.(*DnsCache)
		if !ok {
			verifsim.Yield("dns_control.go:922")
			c.dnsCache.Delete(cacheKey)
			return true
		}

		expiresAt := cache.OriginalDeadline.UnixNano()
		if expiresAt > nowNano && expiresAt > maxExpiresAt {
			maxExpiresAt = expiresAt
		}
		return true
	})

	if maxExpiresAt == 0 {
		verifsim.Yield("dns_control.go:934")
		c.dnsKnowledge.Delete(baseKey)
		return
	}
	verifsim.Yield("dns_control.go:937")
	c.dnsKnowledge.Store(baseKey, maxExpiresAt)
}

func (c *DnsController) HasDnsKnowledge(baseKey string) bool {
	c.requireStore()
	if baseKey == "" {
		return false
	}
	verifsim.Yield("dns_control.go:945")
	value, ok := c.dnsKnowledge.Load(baseKey)
	if !ok {
		return false
	}
	expiresAt, ok := value.(int64)
	if !ok {
		verifsim.Yield("dns_control.go:951")
		c.dnsKnowledge.Delete(baseKey)
		return false
	}
	if expiresAt <= time.Now().UnixNano() {
		verifsim.Yield("dns_control.go:955")
		c.dnsKnowledge.CompareAndDelete(baseKey, value)
		return false
	}
	return true
}

func (c *DnsController) startBpfUpdateWorker() {
	c.requireStore()
	verifsim.Yield("dns_control.go:965")
	c.bpfUpdateOnce.Do(func() {
		verifsim.Yield("dns_control.go:966")
		c.bpfUpdateStopMu.Lock()
		verifsim.Yield("dns_control.go:967")
		if c.bpfUpdateClosed.Load() {
			c.bpfUpdateStopMu.Unlock()
			return
		}
		const bpfUpdateQueueSize = 1024
		c.bpfUpdateCh = make(chan *bpfUpdateTask, bpfUpdateQueueSize)
		c.bpfUpdateStop = make(chan struct{})
		verifsim.Yield("dns_control.go:974")
		c.bpfUpdateWg.Add(1)
		c.bpfUpdateStopMu.Unlock()
		{
			_vf8 := c.bpfUpdateWorker
			verifsim.Go("dns_control.go:976", func() {
				_vf8()
			})
		}
	})
}

func (c *DnsController) processBpfUpdateTask(task *bpfUpdateTask, draining bool) bool {
	if task == nil || task.cache == nil {
		return false
	}
	if rt := c.runtime(); rt != nil && rt.cacheAccessCallback != nil {
		if err := rt.cacheAccessCallback(task.cache); err != nil {
			if c.log != nil {
				suffix := ""
				if draining {
					suffix = " (during shutdown)"
				}
				c.log.WithError(err).Warnf("async BPF map update failed%s", suffix)
			}
		} else {
			task.cache.MarkBpfUpdated(task.now)
		}
	}
	return true
}

func (c *DnsController) bpfUpdateWorker() {
	defer c.bpfUpdateWg.Done()

	for {
		{
			verifsim.Yield("dns_control.go:1017")
			_vc9 := c.bpfUpdateCh
			var _vr10 = verifsim.ChanZero(_vc9)
			_vc11 := c.bpfUpdateStop
			_vi12 := -1
			for _, _vo13 := range verifsim.SelectOrder("dns_control.go:1017", 2) {
				switch _vo13 {
				case 0:
					select {
					case _vr10 = <-_vc9:
						_vi12 = 0
					default:
					}
				case 1:
					select {
					case <-_vc11:
						_vi12 = 1
					default:
					}
				}
				if _vi12 >= 0 {
					break
				}
			}
			if _vi12 < 0 {
				select {
				case _vr10 = <-_vc9:
					_vi12 = 0
				case <-_vc11:
					_vi12 = 1
				}
				verifsim.Yield("dns_control.go:1017+")
			}
			switch _vi12 {
			case 0:
				task := _vr10
				c.processBpfUpdateTask(task, false)
				c.drainBpfUpdateTasks(false)
			case 1:

				c.drainBpfUpdateTasks(true)
				return
			default:
				panic("verifsim: select dispatch: no case chosen")
			}
		}

	}
}

func (c *DnsController) drainBpfUpdateTasks(draining bool) {
	for {
		{
			verifsim.Yield("dns_control.go:1033")
			_vc14 := c.bpfUpdateCh
			var _vr15 = verifsim.ChanZero(_vc14)
			_vi16 := -1
			for _, _vo17 := range verifsim.SelectOrder("dns_control.go:1033", 1) {
				switch _vo17 {
				case 0:
					select {
					case _vr15 = <-_vc14:
						_vi16 = 0
					default:
					}
				}
				if _vi16 >= 0 {
					break
				}
			}
			switch _vi16 {
			case 0:
				task := _vr15
				c.processBpfUpdateTask(task, draining)
			default:

				return
			}
		}

	}
}

func (c *DnsController) triggerBpfUpdateIfNeeded(cache *DnsCache, now time.Time) {
	c.requireStore()
	rt := c.runtime()
	if rt == nil || rt.cacheAccessCallback == nil {
		return
	}
	if !cache.NeedsBpfUpdate(now) {
		return
	}
	verifsim.Yield("dns_control.go:1055")

	if c.bpfUpdateClosed.Load() {
		return
	}

	c.startBpfUpdateWorker()
	verifsim.Yield("dns_control.go:1061")

	if c.bpfUpdateClosed.Load() {
		return
	}

	if !c.sendBpfUpdateTask(&bpfUpdateTask{cache: cache, now: now}) {
		if c.log != nil && c.log.IsLevelEnabled(logrus.DebugLevel) {
			c.log.Debug("BPF update queue full or closed, skipping update")
		}
	}
}

func (c *DnsController) sendBpfUpdateTask(task *bpfUpdateTask) (sent bool) {
	verifsim.Yield("dns_control.go:1075")

	if c.bpfUpdateClosed.Load() {
		return false
	}
	verifsim.Yield("dns_control.go:1078")
	c.bpfUpdateStopMu.Lock()
	bpfUpdateCh := c.bpfUpdateCh
	c.bpfUpdateStopMu.Unlock()
	if bpfUpdateCh == nil {
		return false
	}
	{
		verifsim.Yield("dns_control.go:1087")
		_vc18 := bpfUpdateCh
		_vs19 := task
		_vi20 := -1
		for _, _vo21 := range verifsim.SelectOrder("dns_control.go:1087", 1) {
			switch _vo21 {
			case 0:
				select {
				case _vc18 <- _vs19:
					_vi20 = 0
				default:
				}
			}
			if _vi20 >= 0 {
				break
			}
		}
		switch _vi20 {
		case 0:
			return true
		default:

			return false
		}
	}

}

func (c *DnsController) onDnsCacheEvicted(cache *DnsCache) {
	rt := c.runtime()
	if cache == nil || rt == nil || rt.cacheRemoveCallback == nil {
		return
	}

	if c.janitorStop != nil {
		{
			verifsim.Yield("dns_control.go:1103")
			_vc22 := c.janitorStop
			_vi23 := -1
			for _, _vo24 := range verifsim.SelectOrder("dns_control.go:1103", 1) {
				switch _vo24 {
				case 0:
					select {
					case <-_vc22:
						_vi23 = 0
					default:
					}
				}
				if _vi23 >= 0 {
					break
				}
			}
			switch _vi23 {
			case 0:
				c.invokeCacheRemoveCallback(cache)
				return
			default:
			}
		}

	}
	verifsim.Yield("dns_control.go:1111")

	c.evictorChMu.RLock()
	evictorQ := c.evictorQ
	c.evictorChMu.RUnlock()
	if evictorQ == nil {
		c.invokeCacheRemoveCallback(cache)
		return
	}
	{
		verifsim.Yield("dns_control.go:1119")
		_vc25 := evictorQ
		_vs26 := cache
		_vi27 := -1
		for _, _vo28 := range verifsim.SelectOrder("dns_control.go:1119", 1) {
			switch _vo28 {
			case 0:
				select {
				case _vc25 <- _vs26:
					_vi27 = 0
				default:
				}
			}
			if _vi27 >= 0 {
				break
			}
		}
		switch _vi27 {
		case 0:
		default:

			c.enqueueEvictorSpill(cache)
		}
	}

}

func (c *DnsController) enqueueEvictorSpill(cache *DnsCache) {
	if cache == nil {
		return
	}
	verifsim.Yield("dns_control.go:1135")

	c.evictorChMu.RLock()
	evictorWake := c.evictorWake
	c.evictorChMu.RUnlock()
	if evictorWake == nil {
		c.invokeCacheRemoveCallback(cache)
		return
	}
	verifsim.Yield("dns_control.go:1143")

	c.evictorMu.Lock()
	c.evictorBuf = append(c.evictorBuf, cache)
	c.evictorMu.Unlock()
	{
		verifsim.Yield("dns_control.go:1147")
		_vc29 := evictorWake
		_vs30 := struct{}{}
		_vi31 := -1
		for _, _vo32 := range verifsim.SelectOrder("dns_control.go:1147", 1) {
			switch _vo32 {
			case 0:
				select {
				case _vc29 <- _vs30:
					_vi31 = 0
				default:
				}
			}
			if _vi31 >= 0 {
				break
			}
		}
		switch _vi31 {
		case 0:
		default:
		}
	}

}

func (c *DnsController) takeEvictorSpillBatch() []*DnsCache {
	verifsim.Yield("dns_control.go:1154")
	c.evictorMu.Lock()
	defer c.evictorMu.Unlock()
	if len(c.evictorBuf) == 0 {
		return nil
	}
	batch := c.evictorBuf
	c.evictorBuf = nil
	return batch
}

func (c *DnsController) drainEvictorSpill() {
	for {
		batch := c.takeEvictorSpillBatch()
		if len(batch) == 0 {
			return
		}
		for _, cache := range batch {
			c.invokeCacheRemoveCallback(cache)
		}
	}
}

func (c *DnsController) invokeCacheRemoveCallback(cache *DnsCache) {
	rt := c.runtime()
	if cache == nil || rt == nil || rt.cacheRemoveCallback == nil {
		return
	}
	if err := rt.cacheRemoveCallback(cache); err != nil {
		if c.log != nil {
			c.log.Warnf("failed to remove dns cache side effects: %v", err)
		}
	}
}

func (c *DnsController) invokeCacheDeleteCallback(cacheKey string, cache *DnsCache) {
	rt := c.runtime()
	if cache == nil || rt == nil || rt.cacheDeleteCallback == nil {
		return
	}
	if err := rt.cacheDeleteCallback(cacheKey, ensureDNSCacheRouteOwnerKey(cacheKey, cache)); err != nil {
		if c.log != nil {
			c.log.Warnf("failed to delete exact dns cache side effects: %v", err)
		}
	}
}

func (c *DnsController) evictDnsRespCacheIfSame(cacheKey string, cache *DnsCache) {
	if cache == nil {
		return
	}
	verifsim.Yield("dns_control.go:1204")
	if c.dnsCache.CompareAndDelete(cacheKey, cache) {
		baseKey := dnsCacheBaseKey(cacheKey)
		c.forgetDnsKnowledge(cacheKey, cache)
		c.invokeCacheDeleteCallback(cacheKey, cache)
		c.onBaseKeySideEffectsEvicted(baseKey, cache)
	}
}

func (c *DnsController) evictExpiredDnsCache(now time.Time) {
	optimisticCacheEnabled, optimisticCacheTtl, maxCacheSize := c.currentOptimisticCacheConfig()

	useTimeBasedEviction := optimisticCacheTtl > 0 || (optimisticCacheTtl == 0 && maxCacheSize == 0)

	if useTimeBasedEviction {
		verifsim.Yield("dns_control.go:1221")
		c.dnsCache.Range(func(key, value any) bool {
			cacheKey, ok := key.(string)
			if !ok {
				verifsim.Yield("dns_control.go:1224")
				c.dnsCache.Delete(key)
				return true
			}
			cache, ok := value.(*DnsCache)
			if !ok {
				verifsim.Yield("dns_control.go:1229")
				c.dnsCache.Delete(cacheKey)
				return true
			}

			effectiveDeadline := cache.Deadline
			if optimisticCacheEnabled && optimisticCacheTtl > 0 {
				effectiveDeadline = cache.Deadline.Add(time.Duration(optimisticCacheTtl) * time.Second)
			}

			if effectiveDeadline.After(now) {
				return true
			}

			c.evictDnsRespCacheIfSame(cacheKey, cache)
			return true
		})
	}

	if maxCacheSize > 0 {
		c.evictLRUIfFull()
	}
}

func (c *DnsController) takeLRUScratch(minCap int) []cacheEntry {
	verifsim.Yield("dns_control.go:1259")
	c.lruScratchMu.Lock()
	defer c.lruScratchMu.Unlock()

	if cap(c.lruScratch) >= minCap {
		entries := c.lruScratch[:0]
		c.lruScratch = nil
		return entries
	}

	c.lruScratch = nil
	return make([]cacheEntry, 0, minCap)
}

func (c *DnsController) putLRUScratch(entries []cacheEntry) {
	if entries == nil {
		return
	}

	clear(entries)
	verifsim.Yield("dns_control.go:1279")

	c.lruScratchMu.Lock()
	if cap(entries) > cap(c.lruScratch) {
		c.lruScratch = entries[:0]
	}
	c.lruScratchMu.Unlock()
}

func (c *DnsController) evictLRUIfFull() {
	_, _, maxCacheSize := c.currentOptimisticCacheConfig()
	// Count current cache size
	var count int
	verifsim.Yield("dns_control.go:1295")
	c.dnsCache.Range(func(_, _ any) bool {
		count++
		return true
	})

	if count <= maxCacheSize {
		return
	}

	numToEvict := count - maxCacheSize

	entries := c.takeLRUScratch(count)
	scratch := entries
	defer func() {
		c.putLRUScratch(scratch)
	}()
	verifsim.Yield("dns_control.go:1315")
	c.dnsCache.Range(func(key, value any) bool {
		cacheKey, ok := key.(string)
		if !ok {
			return true
		}
		cache, ok := value.(*DnsCache)
		if !ok {
			return true
		}
		verifsim.Yield("dns_control.go:1324")
		entries = append(entries, cacheEntry{
			key:		cacheKey,
			lastAccess:	cache.lastAccessNano.Load(),
		})
		return true
	})
	scratch = entries

	if numToEvict < len(entries) {

		buildMinHeap(entries)

		for i := range numToEvict {

			lastIdx := len(entries) - 1 - i
			entries[0], entries[lastIdx] = entries[lastIdx], entries[0]

			heapifyMin(entries, 0, lastIdx)
		}

		entries = entries[len(entries)-numToEvict:]
	}

	evicted := 0
	for _, entry := range entries {
		if evicted >= numToEvict {
			break
		}
		verifsim.Yield("dns_control.go:1361")

		if val, ok := c.dnsCache.Load(entry.key); ok {
			if cache, ok := val.(*DnsCache); ok {
				c.evictDnsRespCacheIfSame(entry.key, cache)
				evicted++
			}
		}
	}
}

func (c *DnsController) startDnsCacheJanitor() {
	c.requireStore()
	verifsim.Go("dns_control.go:1378", func() {
		ticker := time.NewTicker(dnsCacheJanitorInterval)
		defer ticker.Stop()
		defer close(c.janitorDone)

		for {
			{
				verifsim.Yield("dns_control.go:1384")
				_vc33 := c.janitorStop
				_vc34 := ticker.C
				var _vr35 = verifsim.ChanZero(_vc34)
				_vi36 := -1
				for _, _vo37 := range verifsim.SelectOrder("dns_control.go:1384", 2) {
					switch _vo37 {
					case 0:
						select {
						case <-_vc33:
							_vi36 = 0
						default:
						}
					case 1:
						select {
						case _vr35 = <-_vc34:
							_vi36 = 1
						default:
						}
					}
					if _vi36 >= 0 {
						break
					}
				}
				if _vi36 < 0 {
					select {
					case <-_vc33:
						_vi36 = 0
					case _vr35 = <-_vc34:
						_vi36 = 1
					}
					verifsim.Yield("dns_control.go:1384+")
				}
				switch _vi36 {
				case 0:
					return
				case 1:
					now := _vr35
					c.evictExpiredDnsCache(now)
					c.evictIdleDnsForwarders(now)
				default:
					panic("verifsim: select dispatch: no case chosen")
				}
			}

		}
	})
}

func (c *DnsController) startCacheEvictor() {
	c.requireStore()
	verifsim.Go("dns_control.go:1403", func() {
		defer close(c.evictorDone)
		if c.evictorQ == nil {
			return
		}
		if c.evictorWake == nil {
			c.evictorWake = make(chan struct{}, 1)
		}

		for {
			{
				verifsim.Yield("dns_control.go:1413")
				_vc38 := c.evictorQ
				var _vr39 = verifsim.ChanZero(_vc38)
				_vc40 := c.evictorWake
				_vc41 := c.janitorStop
				_vi42 := -1
				for _, _vo43 := range verifsim.SelectOrder("dns_control.go:1413", 3) {
					switch _vo43 {
					case 0:
						select {
						case _vr39 = <-_vc38:
							_vi42 = 0
						default:
						}
					case 1:
						select {
						case <-_vc40:
							_vi42 = 1
						default:
						}
					case 2:
						select {
						case <-_vc41:
							_vi42 = 2
						default:
						}
					}
					if _vi42 >= 0 {
						break
					}
				}
				if _vi42 < 0 {
					select {
					case _vr39 = <-_vc38:
						_vi42 = 0
					case <-_vc40:
						_vi42 = 1
					case <-_vc41:
						_vi42 = 2
					}
					verifsim.Yield("dns_control.go:1413+")
				}
				switch _vi42 {
				case 0:
					cache := _vr39
					c.invokeCacheRemoveCallback(cache)
					c.drainEvictorSpill()
				case 1:

					c.drainEvictorSpill()
				case 2:

					for {
						{
							verifsim.Yield("dns_control.go:1421")
							_vc44 := c.evictorQ
							var _vr45 = verifsim.ChanZero(_vc44)
							_vi46 := -1
							for _, _vo47 := range verifsim.SelectOrder("dns_control.go:1421", 1) {
								switch _vo47 {
								case 0:
									select {
									case _vr45 = <-_vc44:
										_vi46 = 0
									default:
									}
								}
								if _vi46 >= 0 {
									break
								}
							}
							switch _vi46 {
							case 0:
								cache := _vr45
								c.invokeCacheRemoveCallback(cache)
							default:

								c.drainEvictorSpill()
								return
							}
						}

					}
				default:
					panic("verifsim: select dispatch: no case chosen")
				}
			}

		}
	})
}

func (c *DnsController) LookupDnsRespCache(cacheKey string, ignoreFixedTtl bool) (cache *DnsCache) {
	c.requireStore()
	verifsim.Yield("dns_control.go:1436")
	val, ok := c.dnsCache.Load(cacheKey)
	if !ok {
		return nil
	}
	cache = val.(*DnsCache)
	now := time.Now()
	var deadline time.Time
	if !ignoreFixedTtl {
		deadline = cache.Deadline
	} else {
		deadline = cache.OriginalDeadline
	}

	if !deadline.After(now) {
		c.evictDnsRespCacheIfSame(cacheKey, cache)
		return nil
	}

	c.triggerBpfUpdateIfNeeded(cache, now)
	return cache
}

func (c *DnsController) LookupDnsRespCache_(msg *dnsmessage.Msg, cacheKey string, ignoreFixedTtl bool) (resp []byte, needRefresh bool) {
	c.requireStore()
	verifsim.Yield("dns_control.go:1470")

	val, ok := c.dnsCache.Load(cacheKey)
	if !ok {
		return nil, false
	}
	cache := val.(*DnsCache)

	now := time.Now()
	verifsim.Yield("dns_control.go:1479")

	cache.lastAccessNano.Store(now.UnixNano())

	// Determine deadline based on ignoreFixedTtl
	var deadline time.Time
	if !ignoreFixedTtl {
		deadline = cache.Deadline
	} else {
		deadline = cache.OriginalDeadline
	}

	if deadline.After(now) {
		// Extract qname and qtype from the message for TTL refresh
		var qname string
		var qtype uint16
		if len(msg.Question) > 0 {
			qname = msg.Question[0].Name
			qtype = msg.Question[0].Qtype
		}

		if resp := cache.GetPackedResponseWithApproximateTTL(qname, qtype, now); resp != nil {

			c.triggerBpfUpdateIfNeeded(cache, now)
			return resp, false
		}

		if resp = cache.fillIntoWithTTLInPlace(msg, now); resp != nil {
			return resp, false
		}
		return nil, false
	}

	optimisticCacheEnabled, optimisticCacheTtl, _ := c.currentOptimisticCacheConfig()
	if optimisticCacheEnabled {

		if resp = cache.GetStaleResponse(now, optimisticCacheTtl); resp != nil {
			verifsim.Yield("dns_control.go:1524")

			if cache.refreshing.CompareAndSwap(false, true) {
				needRefresh = true
			}
			return resp, needRefresh
		}
	}

	c.evictDnsRespCacheIfSame(cacheKey, cache)
	return nil, false
}

func (c *DnsController) NormalizeAndCacheDnsResp_(msg *dnsmessage.Msg, responseCacheKey string) (err error) {

	if !msg.Response || len(msg.Question) == 0 || msg.Rcode != dnsmessage.RcodeSuccess {
		return nil
	}

	q := msg.Question[0]

	// Get TTL: the answer is cached and served as a whole, so it may live only as
	// long as its shortest-lived record (e.g. a CNAME with a long TTL followed by
	// the short-lived addresses of its target). Only the answer section counts:
	// the TTL field of an OPT pseudo-record in the additional section is not a TTL.
	// This must happen before the A/AAAA TTLs are zeroed below.
	var ttl uint32
	if len(msg.Answer) > 0 {
		ttl = msg.Answer[0].Header().Ttl
		for _, rr := range msg.Answer[1:] {
			if t := rr.Header().Ttl; t < ttl {
				ttl = t
			}
		}
	} else {

		ttl = minFirefoxCacheTtl
	}

	if ttl > 31536000 {
		ttl = 31536000
	}

	if q.Qtype == dnsmessage.TypeA || q.Qtype == dnsmessage.TypeAAAA {
		for i := range msg.Answer {
			msg.Answer[i].Header().Ttl = 0
		}
	}

	return c.updateDnsCache(msg, responseCacheKey, ttl, &q)
}

func (c *DnsController) updateDnsCache(msg *dnsmessage.Msg, responseCacheKey string, ttl uint32, q *dnsmessage.Question) error {

	if c.log.IsLevelEnabled(logrus.TraceLevel) {
		c.log.WithFields(logrus.Fields{
			"_qname":	q.Name,
			"rcode":	msg.Rcode,
			"ans":		FormatDnsRsc(msg.Answer),
		}).Tracef("Update DNS record cache")
	}

	if err := c.UpdateDnsCacheTtlWithKey(responseCacheKey, q.Name, q.Qtype, msg.Answer, msg.Ns, msg.Extra, int(ttl)); err != nil {
		return err
	}
	return nil
}

func staleDnsSideEffects(prev, next *DnsCache) *DnsCache {
	if prev == nil {
		return nil
	}
	if next == nil {
		return prev
	}

	staleCount := 0
	firstStaleIdx := -1
	lastStaleIdx := -1
	contiguous := true

	for i, ans := range prev.Answer {
		ip, ok := dnsAnswerIP(ans)
		if !ok || ip.IsUnspecified() || next.IncludeIp(ip) {
			continue
		}
		if firstStaleIdx == -1 {
			firstStaleIdx = i
		} else if i != lastStaleIdx+1 {
			contiguous = false
		}
		lastStaleIdx = i
		staleCount++
	}

	if staleCount == 0 {
		return nil
	}
	if contiguous {
		return &DnsCache{Answer: prev.Answer[firstStaleIdx : lastStaleIdx+1 : lastStaleIdx+1]}
	}

	staleAnswers := make([]dnsmessage.RR, 0, staleCount)
	for _, ans := range prev.Answer {
		ip, ok := dnsAnswerIP(ans)
		if !ok || ip.IsUnspecified() || next.IncludeIp(ip) {
			continue
		}
		staleAnswers = append(staleAnswers, ans)
	}
	return &DnsCache{Answer: staleAnswers}
}

type daedlineFunc func(now time.Time, host string) (deadline time.Time, originalDeadline time.Time)

func (c *DnsController) __updateDnsCacheDeadline(cacheKey string, host string, dnsTyp uint16, answers, ns, extra []dnsmessage.RR, deadlineFunc daedlineFunc) (err error) {
	var fqdn string
	if strings.HasSuffix(host, ".") {
		fqdn = strings.ToLower(host)
		host = host[:len(host)-1]
	} else {
		fqdn = dnsmessage.CanonicalName(host)
	}

	if _, err = netip.ParseAddr(host); err == nil {
		return nil
	}

	now := time.Now()
	deadline, originalDeadline := deadlineFunc(now, host)

	if cacheKey == "" {
		cacheKey = c.cacheKey(fqdn, dnsTyp)
	}
	baseKey := dnsCacheBaseKey(cacheKey)

	rt := c.runtime()
	if rt == nil || rt.newCache == nil {
		return fmt.Errorf("dns controller runtime newCache is not configured")
	}
	newCache, err := rt.newCache(fqdn, answers, ns, extra, deadline, originalDeadline)
	if err != nil {
		return err
	}
	verifsim.Yield("dns_control.go:1680")

	newCache.deadlineNano.Store(deadline.UnixNano())

	if err = newCache.prepackResponseBeforeStore(fqdn, dnsTyp, ttlFromDeadline(deadline, now), now); err != nil {
		if c.log != nil {
			c.log.Warnf("failed to prepack DNS response: %v", err)
		}

	}
	verifsim.Yield("dns_control.go:1695")

	newCache.lastAccessNano.Store(now.UnixNano())
	var staleSideEffects *DnsCache
	verifsim.Yield("dns_control.go:1697")
	if oldValue, ok := c.dnsCache.Load(cacheKey); ok {
		if oldCache, ok := oldValue.(*DnsCache); ok {
			staleSideEffects = staleDnsSideEffects(oldCache, newCache)
			verifsim.Yield("dns_control.go:1700")
			if last := oldCache.lastAccessNano.Load(); last != 0 {
				verifsim.Yield("dns_control.go:1701")
				newCache.lastAccessNano.Store(last)
			}
		}
	}

	newCache.RouteOwnerKey = cacheKey
	newCache.routeLive = c.dnsCacheEntryLive(cacheKey, newCache)
	verifsim.Yield("dns_control.go:1709")
	c.dnsCache.Store(cacheKey, newCache)
	c.rememberDnsKnowledge(baseKey, originalDeadline)

	if rt.cacheAccessCallback != nil {
		if err = rt.cacheAccessCallback(newCache); err != nil {
			return err
		}
	}

	newCache.MarkBpfUpdated(now)
	if staleSideEffects != nil {
		staleSideEffects.RouteOwnerKey = cacheKey
		c.onBaseKeySideEffectsEvicted(baseKey, staleSideEffects)
	}

	return nil
}

func (c *DnsController) UpdateDnsCacheTtl(host string, dnsTyp uint16, answers, ns, extra []dnsmessage.RR, ttl int) (err error) {
	c.requireStore()
	return c.__updateDnsCacheDeadline("", host, dnsTyp, answers, ns, extra, func(now time.Time, host string) (daedline time.Time, originalDeadline time.Time) {
		originalDeadline = now.Add(time.Duration(ttl) * time.Second)
		if rt := c.runtime(); rt != nil {

			if fixedTtl, ok := rt.fixedDomainTtl[strings.ToLower(host)]; ok {
				return now.Add(time.Duration(fixedTtl) * time.Second), originalDeadline
			}
		}
		return originalDeadline, originalDeadline
	})
}

func (c *DnsController) UpdateDnsCacheTtlWithKey(cacheKey string, host string, dnsTyp uint16, answers, ns, extra []dnsmessage.RR, ttl int) (err error) {
	c.requireStore()
	return c.__updateDnsCacheDeadline(cacheKey, host, dnsTyp, answers, ns, extra, func(now time.Time, host string) (deadline time.Time, originalDeadline time.Time) {
		originalDeadline = now.Add(time.Duration(ttl) * time.Second)
		if rt := c.runtime(); rt != nil {

			if fixedTtl, ok := rt.fixedDomainTtl[strings.ToLower(host)]; ok {
				return now.Add(time.Duration(fixedTtl) * time.Second), originalDeadline
			}
		}
		return originalDeadline, originalDeadline
	})
}

type udpRequest struct {
	realSrc		netip.AddrPort
	realDst		netip.AddrPort
	src		netip.AddrPort
	lConn		*net.UDPConn
	routingResult	*bpfRoutingResult
	uploadRecord	func(int64)
	downloadRecord	func(int64)
}

func (r *udpRequest) uploadRecorder() func(int64) {
	if r == nil {
		return RecordUploadTraffic
	}
	return normalizeTrafficRecord(r.uploadRecord)
}

func (r *udpRequest) downloadRecorder() func(int64) {
	if r == nil {
		return RecordDownloadTraffic
	}
	return normalizeTrafficRecord(r.downloadRecord)
}

type dialArgument struct {
	l4proto		consts.L4ProtoStr
	ipversion	consts.IpVersionStr
	bestDialer	*dialer.Dialer
	bestOutbound	*outbound.DialerGroup
	bestTarget	netip.AddrPort
	mark		uint32
	mptcp		bool
}

type dnsForwarderKey struct {
	upstream	string
	l4proto		consts.L4ProtoStr
	ipversion	consts.IpVersionStr
	dialerName	string
	outboundName	string
	bestTarget	netip.AddrPort
	mark		uint32
	mptcp		bool
}

type cachedDnsForwarder struct {
	forwarder	DnsForwarder
	lastUsedNano	atomic.Int64
	inFlight	atomic.Int32
	retired		atomic.Bool
	closeOnce	verifsim.Once
	// consecutiveErrors counts back-to-back failures.  A single success
	// resets the counter.  When it reaches maxConsecutiveForwardErrors the
	// forwarder is retired even for stream-based upstream schemes.
	consecutiveErrors	atomic.Int32
}

const maxConsecutiveForwardErrors = 3

func newCachedDnsForwarder(forwarder DnsForwarder, now time.Time) *cachedDnsForwarder {
	entry := &cachedDnsForwarder{forwarder: forwarder}
	entry.touch(now)
	return entry
}

func (c *cachedDnsForwarder) touch(now time.Time) {
	verifsim.Yield("dns_control.go:1821")
	c.lastUsedNano.Store(now.UnixNano())
}

func (c *cachedDnsForwarder) beginUse() bool {
	verifsim.Yield("dns_control.go:1825")
	if c == nil || c.retired.Load() {
		return false
	}
	verifsim.Yield("dns_control.go:1828")
	c.inFlight.Add(1)
	c.touch(time.Now())
	verifsim.Yield("dns_control.go:1830")
	if !c.retired.Load() {
		return true
	}
	verifsim.Yield("dns_control.go:1833")
	if c.inFlight.Add(-1) == 0 {
		_ = c.closeNow()
	}
	return false
}

func (c *cachedDnsForwarder) endUse() {
	if c == nil {
		return
	}
	c.touch(time.Now())
	verifsim.Yield("dns_control.go:1844")
	if c.inFlight.Add(-1) == 0 && c.retired.Load() {
		_ = c.closeNow()
	}
}

func (c *cachedDnsForwarder) closeNow() error {
	if c == nil {
		return nil
	}
	var err error
	verifsim.Yield("dns_control.go:1854")
	c.closeOnce.Do(func() {
		if c.forwarder != nil {
			err = c.forwarder.Close()
		}
	})
	return err
}

func (c *cachedDnsForwarder) retire() error {
	if c == nil {
		return nil
	}
	verifsim.Yield("dns_control.go:1866")
	c.retired.Store(true)
	verifsim.Yield("dns_control.go:1867")
	if c.inFlight.Load() == 0 {
		return c.closeNow()
	}
	return nil
}

var dnsForwarderFactory = newDnsForwarder

func (c *DnsController) extractDnsForwarder(value any) DnsForwarder {
	switch v := value.(type) {
	case *cachedDnsForwarder:
		return v.forwarder
	case DnsForwarder:
		return v
	default:
		return nil
	}
}

func (c *DnsController) evictIdleDnsForwarders(now time.Time) {
	if c.dnsForwarderIdleTTL <= 0 {
		return
	}

	nowNano := now.UnixNano()
	idleNano := c.dnsForwarderIdleTTL.Nanoseconds()
	var toClose []DnsForwarder
	var toRetire []*cachedDnsForwarder
	verifsim.Yield("dns_control.go:1896")

	c.dnsForwarderCache.Range(func(key, value any) bool {
		k, ok := key.(dnsForwarderKey)
		if !ok {
			verifsim.Yield("dns_control.go:1899")
			c.dnsForwarderCache.Delete(key)
			return true
		}

		entry, ok := value.(*cachedDnsForwarder)
		if !ok {
			if forwarder := c.extractDnsForwarder(value); forwarder != nil {
				verifsim.Yield("dns_control.go:1906")
				if c.dnsForwarderCache.CompareAndDelete(k, value) {
					toClose = append(toClose, forwarder)
				}
			} else {
				verifsim.Yield("dns_control.go:1910")
				c.dnsForwarderCache.Delete(k)
			}
			return true
		}
		verifsim.Yield("dns_control.go:1915")

		if entry.inFlight.Load() > 0 {
			return true
		}
		verifsim.Yield("dns_control.go:1918")
		lastUsedNano := entry.lastUsedNano.Load()
		if lastUsedNano == 0 || nowNano-lastUsedNano <= idleNano {
			return true
		}
		verifsim.Yield("dns_control.go:1923")

		if c.dnsForwarderCache.CompareAndDelete(k, entry) {
			toRetire = append(toRetire, entry)
		}
		return true
	})

	for _, entry := range toRetire {
		if err := entry.retire(); err != nil && c.log != nil {
			c.log.WithError(err).Debugln("failed to close idle dns forwarder")
		}
	}

	for _, forwarder := range toClose {
		if forwarder == nil {
			continue
		}
		if err := forwarder.Close(); err != nil && c.log != nil {
			c.log.WithError(err).Debugln("failed to close idle dns forwarder")
		}
	}
}

func (c *DnsController) reportDnsForwardFailure(dialArg *dialArgument, err error) {
	if dialArg == nil || err == nil {
		return
	}

	if commonerrors.IsCanceledOrClosed(err) || errors.Is(err, ErrDNSUDPConnPoolExhausted) {
		return
	}
	if lifecycle, ok := newDnsUdpLifecycleContext(dialArg, UdpLifecycleProfile{}); ok {
		lifecycle.reportUnavailable(err)
	}
	if rt := c.runtime(); rt != nil && rt.timeoutExceedCallback != nil {
		rt.timeoutExceedCallback(dialArg, err)
	}
	notifyProxyDialerHealthCheck(dialArg.bestDialer, dialArg.l4proto, err)
}

func (c *DnsController) logDnsForwardFailure(upstream *dns.Upstream, dialArg *dialArgument, err error) {
	if c == nil || c.log == nil || err == nil {
		return
	}
	if commonerrors.IsCanceledOrClosed(err) || errors.Is(err, ErrDNSUDPConnPoolExhausted) {
		return
	}
	fields := logrus.Fields{}
	if upstream != nil {
		fields["upstream"] = upstream.String()
	}
	if dialArg != nil {
		fields["network"] = string(dialArg.l4proto) + "+" + string(dialArg.ipversion)
		if dialArg.bestTarget.IsValid() {
			fields["target"] = dialArg.bestTarget.String()
		}
		if dialArg.bestOutbound != nil {
			fields["outbound"] = dialArg.bestOutbound.Name
			fields["policy"] = dialArg.bestOutbound.GetSelectionPolicy()
		}
		if dialArg.bestDialer != nil && dialArg.bestDialer.Property() != nil {
			fields["dialer"] = dialArg.bestDialer.Property().Name
		}
	}
	c.log.WithError(err).WithFields(fields).Warn("DNS forward to upstream failed")
}

func (c *DnsController) shouldRetireCachedDnsForwarder(upstream *dns.Upstream, dialArg *dialArgument, entry *cachedDnsForwarder, err error) bool {
	if dialArg == nil || err == nil {
		return false
	}
	if commonerrors.IsCanceledOrClosed(err) || errors.Is(err, ErrDNSUDPConnPoolExhausted) {
		return false
	}

	if dialArg.l4proto == consts.L4ProtoStr_UDP {
		return true
	}
	if upstream == nil || !isProxyBackedDialer(dialArg.bestDialer) {
		return false
	}
	verifsim.Yield("dns_control.go:2012")

	if entry != nil && entry.consecutiveErrors.Load() >= maxConsecutiveForwardErrors {
		return true
	}
	switch upstream.Scheme {
	case dns.UpstreamScheme_TCP,
		dns.UpstreamScheme_TCP_UDP,
		dns.UpstreamScheme_TLS,
		dns.UpstreamScheme_HTTPS,
		dns.UpstreamScheme_H3,
		dns.UpstreamScheme_QUIC:

		return false
	default:
		return false
	}
}

func (c *DnsController) retireCachedDnsForwarder(key dnsForwarderKey, entry *cachedDnsForwarder) {
	if entry == nil {
		return
	}
	verifsim.Yield("dns_control.go:2036")
	if !c.dnsForwarderCache.CompareAndDelete(key, entry) {
		return
	}
	if err := entry.retire(); err != nil && c.log != nil {
		c.log.WithError(err).Debugln("failed to close retired dns forwarder")
	}
}

func newDnsForwarderKey(upstream *dns.Upstream, dialArg *dialArgument) dnsForwarderKey {
	key := dnsForwarderKey{}
	if upstream != nil {
		key.upstream = upstream.String()
	}
	if dialArg == nil {
		return key
	}
	key.l4proto = dialArg.l4proto
	key.ipversion = dialArg.ipversion
	if dialArg.bestDialer != nil && dialArg.bestDialer.Property() != nil {
		key.dialerName = dialArg.bestDialer.Property().Name
	}
	if dialArg.bestOutbound != nil {
		key.outboundName = dialArg.bestOutbound.Name
	}
	key.bestTarget = dialArg.bestTarget
	key.mark = dialArg.mark
	key.mptcp = dialArg.mptcp
	return key
}

func (c *DnsController) getOrCreateDnsForwarder(upstream *dns.Upstream, dialArg *dialArgument) (*cachedDnsForwarder, error) {
	key := newDnsForwarderKey(upstream, dialArg)
	now := time.Now()

	for range 3 {
		verifsim.Yield("dns_control.go:2071")
		if cached, ok := c.dnsForwarderCache.Load(key); ok {
			switch entry := cached.(type) {
			case *cachedDnsForwarder:
				entry.touch(now)
				return entry, nil
			case DnsForwarder:
				wrapped := newCachedDnsForwarder(entry, now)
				verifsim.Yield("dns_control.go:2078")
				if c.dnsForwarderCache.CompareAndSwap(key, cached, wrapped) {
					return wrapped, nil
				}
				continue
			default:
				verifsim.Yield("dns_control.go:2083")
				c.dnsForwarderCache.CompareAndDelete(key, cached)
				continue
			}
		}
		break
	}

	createdForwarder, createErr := dnsForwarderFactory(upstream, *dialArg, c.log)
	if createErr != nil {
		return nil, createErr
	}
	created := newCachedDnsForwarder(createdForwarder, now)
	verifsim.Yield("dns_control.go:2096")

	actual, loaded := c.dnsForwarderCache.LoadOrStore(key, created)
	if loaded {

		_ = createdForwarder.Close()
		if entry, ok := actual.(*cachedDnsForwarder); ok {
			entry.touch(now)
			return entry, nil
		}
		if old, ok := actual.(DnsForwarder); ok {
			wrapped := newCachedDnsForwarder(old, now)
			verifsim.Yield("dns_control.go:2106")
			if c.dnsForwarderCache.CompareAndSwap(key, actual, wrapped) {
				return wrapped, nil
			}
			verifsim.Yield("dns_control.go:2109")
			if latest, ok := c.dnsForwarderCache.Load(key); ok {
				if latestEntry, ok := latest.(*cachedDnsForwarder); ok {
					latestEntry.touch(now)
					return latestEntry, nil
				}
			}
		}
		return nil, fmt.Errorf("unexpected cached dns forwarder type: %T", actual)
	}
	return created, nil
}

func (c *DnsController) forwardWithDialArg(ctx context.Context, upstream *dns.Upstream, dialArg *dialArgument, data []byte) (*dnsmessage.Msg, error) {
	c.requireStore()
	key := newDnsForwarderKey(upstream, dialArg)
	for range 2 {
		entry, err := c.getOrCreateDnsForwarder(upstream, dialArg)
		if err != nil {
			return nil, err
		}
		if !entry.beginUse() {
			continue
		}

		respMsg, err := entry.forwarder.ForwardDNS(ctx, data)
		entry.endUse()
		if err != nil {

			if !errors.Is(err, ErrDNSTruncated) {
				verifsim.Yield("dns_control.go:2142")
				entry.consecutiveErrors.Add(1)
				if c.shouldRetireCachedDnsForwarder(upstream, dialArg, entry, err) {
					c.retireCachedDnsForwarder(key, entry)
				}
				c.logDnsForwardFailure(upstream, dialArg, err)
				c.reportDnsForwardFailure(dialArg, err)
			}
			return nil, err
		}
		verifsim.Yield("dns_control.go:2151")
		entry.consecutiveErrors.Store(0)
		return respMsg, nil
	}
	return nil, fmt.Errorf("dns forwarder retired before request could start")
}

func (c *DnsController) forwardWithFallback(
	ctx context.Context,
	req *udpRequest,
	upstream *dns.Upstream,
	primaryDialArg *dialArgument,
	data []byte,
) (respMsg *dnsmessage.Msg, usedDialArg *dialArgument, err error) {

	primaryCtx, primaryCancel := context.WithTimeout(ctx, consts.DefaultDialTimeout)
	defer primaryCancel()

	respMsg, err = c.forwardWithDialArg(primaryCtx, upstream, primaryDialArg, data)
	if err == nil {
		return respMsg, primaryDialArg, nil
	}

	primaryErr := err

	if upstream == nil || upstream.Scheme != dns.UpstreamScheme_TCP_UDP || primaryDialArg.l4proto != consts.L4ProtoStr_UDP {
		return nil, primaryDialArg, primaryErr
	}

	fallbackUpstream := *upstream
	fallbackUpstream.Scheme = dns.UpstreamScheme_TCP

	rt := c.runtime()
	if rt == nil || rt.bestDialerChooser == nil {
		return nil, primaryDialArg, fmt.Errorf("dns controller runtime bestDialerChooser is not configured")
	}
	fallbackDialArg, chooseErr := rt.bestDialerChooser(ctx, req, &fallbackUpstream)
	if chooseErr != nil {
		return nil, primaryDialArg, fmt.Errorf("udp forward failed: %w; tcp fallback select failed: %v", primaryErr, chooseErr)
	}
	if fallbackDialArg == nil || fallbackDialArg.l4proto != consts.L4ProtoStr_TCP {
		return nil, primaryDialArg, fmt.Errorf("udp forward failed: %w; tcp fallback select returned invalid network", primaryErr)
	}

	if c.log != nil && c.log.IsLevelEnabled(logrus.DebugLevel) {
		c.log.WithFields(logrus.Fields{
			"upstream":	upstream.String(),
			"from":		primaryDialArg.l4proto,
			"to":		fallbackDialArg.l4proto,
		}).Debugln("DNS fallback to TCP after UDP failure")
	}

	fallbackCtx, fallbackCancel := context.WithTimeout(ctx, consts.DefaultDialTimeout)
	defer fallbackCancel()

	respMsg, err = c.forwardWithDialArg(fallbackCtx, upstream, fallbackDialArg, data)
	if err != nil {
		return nil, fallbackDialArg, fmt.Errorf("udp forward failed: %w; tcp fallback failed: %v", primaryErr, err)
	}

	return respMsg, fallbackDialArg, nil
}

func (c *DnsController) Handle_(ctx context.Context, dnsMessage *dnsmessage.Msg, req *udpRequest) (err error) {
	return c.HandleWithResponseWriter_(ctx, dnsMessage, req, nil)
}

func (c *DnsController) HandleWithResponseWriter_(ctx context.Context, dnsMessage *dnsmessage.Msg, req *udpRequest, responseWriter dnsmessage.ResponseWriter) (err error) {
	c.requireStore()
	var upstreamIndex consts.DnsRequestOutboundIndex
	var upstream *dns.Upstream
	verifsim.Yield("dns_control.go:2225")

	if cap(c.concurrencyLimiter) > 0 {
		{
			verifsim.Yield("dns_control.go:2226")
			_vc48 := c.concurrencyLimiter
			_vs49 := struct{}{}
			_vi50 := -1
			for _, _vo51 := range verifsim.SelectOrder("dns_control.go:2226", 1) {
				switch _vo51 {
				case 0:
					select {
					case _vc48 <- _vs49:
						_vi50 = 0
					default:
					}
				}
				if _vi50 >= 0 {
					break
				}
			}
			switch _vi50 {
			case 0:
				defer func() {
					verifsim.Yield("dns_control.go:2228")
					<-c.concurrencyLimiter
					verifsim.Yield("dns_control.go:2228+")
				}()
			default:

				if responseWriter != nil || (req != nil && req.lConn != nil) {
					if sendErr := c.sendRefusedWithResponseWriter_(dnsMessage, req, responseWriter); sendErr != nil {
						return errors.Join(ErrDNSQueryConcurrencyLimitExceeded, sendErr)
					}
				}
				return ErrDNSQueryConcurrencyLimitExceeded
			}
		}

	}

	// Prepare qname, qtype for cache lookup
	var qname string
	var qtype uint16
	var baseCacheKey string
	var responseCacheKey string
	if len(dnsMessage.Question) > 0 {
		q := dnsMessage.Question[0]
		qname = q.Name
		qtype = q.Qtype
		baseCacheKey = c.cacheKey(qname, qtype)
	}

	if baseCacheKey != "" && !dnsMessage.Response {

		rt := c.runtime()
		if rt == nil || rt.routing == nil {
			return fmt.Errorf("dns routing is not configured")
		}
		var err error
		upstreamIndex, upstream, err = rt.routing.RequestSelect(ctx, qname, qtype)
		if err != nil {
			return err
		}
		responseCacheKey = c.responseCacheKey(baseCacheKey, req, upstreamIndex, upstream)

		if upstreamIndex == consts.DnsRequestOutboundIndex_Reject {
			c.RemoveDnsRespCacheFamily(baseCacheKey)
			return c.sendRejectWithResponseWriter_(dnsMessage, req, responseWriter)
		}

		if resp, needRefresh := c.LookupDnsRespCache_(dnsMessage, responseCacheKey, false); resp != nil {

			if needRefresh {
				{
					_vf52 := c.backgroundRefresh
					_va53 := responseCacheKey
					_va54 := dnsMessage
					_va55 := req
					_va56 := upstreamIndex
					_va57 := upstream
					verifsim.Go("dns_control.go:2278", func() {
						_vf52(_va53, _va54, _va55, _va56, _va57)
					})
				}
			}

			if err = c.writeCachedResponse(resp, dnsMessage.Id, req, responseWriter); err != nil {
				return err
			}

			if c.log.IsLevelEnabled(logrus.DebugLevel) && len(dnsMessage.Question) > 0 && req != nil {
				q := dnsMessage.Question[0]
				c.log.WithFields(logrus.Fields{
					"network":	"udp(dns)",
					"_qname":	strings.ToLower(q.Name),
					"qtype":	QtypeToString(q.Qtype),
				}).Debugf("%v <-> %v (cache)",
					RefineSourceToShow(req.realSrc, req.realDst.Addr()),
					RefineAddrPortToShow(req.realDst),
				)
			}
			return nil
		}
		verifsim.Yield("dns_control.go:2302")

		res, err, _ := c.sf.Do(responseCacheKey, func() (any, error) {

			resCtx, resCancel := c.newWorkContext(5 * time.Second)
			defer resCancel()

			return c.resolveForSingleflight(resCtx, dnsMessage, req, upstreamIndex, upstream, responseCacheKey, baseCacheKey)
		})
		verifsim.Yield("dns_control.go:2302+")

		if err != nil {
			return err
		}

		respMsg := res.(*dnsmessage.Msg)

		if responseCacheKey != "" {
			if resp, _ := c.LookupDnsRespCache_(dnsMessage, responseCacheKey, false); resp != nil {
				if err = c.writeCachedResponse(resp, dnsMessage.Id, req, responseWriter); err != nil {
					return err
				}
				return nil
			}
		}

		if responseWriter != nil {
			respMsgUnique := respMsg.Copy()
			respMsgUnique.Id = dnsMessage.Id
			return responseWriter.WriteMsg(respMsgUnique)
		}

		data, err := respMsg.Pack()
		if err != nil {
			return fmt.Errorf("pack DNS packet: %w", err)
		}
		if len(data) >= 2 {
			binary.BigEndian.PutUint16(data[:2], dnsMessage.Id)
		}
		if req == nil || req.lConn == nil {
			return fmt.Errorf("dns request connection is nil for singleflight response")
		}
		if err = sendRuntimeTrackedPkt(c.log, data, req.realDst, req.realSrc, req.downloadRecorder()); err != nil {
			return err
		}
		return nil
	}

	return c.handleWithResponseWriterInternal(ctx, dnsMessage, req, responseWriter, upstreamIndex, upstream, responseCacheKey, baseCacheKey)
}

func (c *DnsController) resolveForSingleflight(ctx context.Context, dnsMessage *dnsmessage.Msg, req *udpRequest, upstreamIndex consts.DnsRequestOutboundIndex, upstream *dns.Upstream, responseCacheKey string, baseCacheKey string) (*dnsmessage.Msg, error) {

	capturer := &msgCapturer{}
	err := c.handleWithResponseWriterInternal(ctx, dnsMessage, req, capturer, upstreamIndex, upstream, responseCacheKey, baseCacheKey)
	if err != nil {
		return nil, err
	}
	if capturer.msg == nil {
		return nil, fmt.Errorf("no response captured during singleflight resolution")
	}
	return capturer.msg, nil
}

type msgCapturer struct {
	msg *dnsmessage.Msg
}

func (m *msgCapturer) LocalAddr() net.Addr	{ return nil }
func (m *msgCapturer) RemoteAddr() net.Addr	{ return nil }
func (m *msgCapturer) WriteMsg(msg *dnsmessage.Msg) error {
	m.msg = msg
	return nil
}
func (m *msgCapturer) Write(b []byte) (int, error)	{ return 0, nil }
func (m *msgCapturer) Close() error			{ return nil }
func (m *msgCapturer) TsigStatus() error		{ return nil }
func (m *msgCapturer) TsigTimersOnly(bool)		{}
func (m *msgCapturer) Hijack()				{}

func (c *DnsController) handleWithResponseWriterInternal(ctx context.Context, dnsMessage *dnsmessage.Msg, req *udpRequest, responseWriter dnsmessage.ResponseWriter, upstreamIndex consts.DnsRequestOutboundIndex, upstream *dns.Upstream, responseCacheKey string, baseCacheKey string) (err error) {
	if c.log.IsLevelEnabled(logrus.TraceLevel) && len(dnsMessage.Question) > 0 {
		q := dnsMessage.Question[0]
		c.log.Tracef("Received UDP(DNS) %v <-> %v: %v %v",
			RefineSourceToShow(req.realSrc, req.realDst.Addr()), req.realDst.String(), strings.ToLower(q.Name), QtypeToString(q.Qtype),
		)
	}

	if dnsMessage.Response {
		return fmt.Errorf("DNS request expected but DNS response received")
	}

	// Get qtype for preference handling (RFC 8305 Happy Eyeballs).
	var qtype uint16
	if len(dnsMessage.Question) != 0 {
		qtype = dnsMessage.Question[0].Qtype
	}

	if c.currentQtypePrefer() == 0 {
		return c.handleWithResponseWriter_(ctx, dnsMessage, req, true, responseWriter, upstreamIndex, upstream, responseCacheKey, baseCacheKey)
	}

	if qtype != dnsmessage.TypeA && qtype != dnsmessage.TypeAAAA {
		return c.handleWithResponseWriter_(ctx, dnsMessage, req, true, responseWriter, upstreamIndex, upstream, responseCacheKey, baseCacheKey)
	}

	return c.handleWithResponseWriter_(ctx, dnsMessage, req, true, responseWriter, upstreamIndex, upstream, responseCacheKey, baseCacheKey)
}

func (c *DnsController) handleWithResponseWriter_(
	ctx context.Context,
	dnsMessage *dnsmessage.Msg,
	req *udpRequest,
	needResp bool,
	responseWriter dnsmessage.ResponseWriter,
	upstreamIndex consts.DnsRequestOutboundIndex,
	upstream *dns.Upstream,
	responseCacheKey string,
	baseCacheKey string,
) (err error) {
	// Prepare qname, qtype.
	var qname string
	var qtype uint16
	if len(dnsMessage.Question) != 0 {
		q := dnsMessage.Question[0]
		qname = q.Name
		qtype = q.Qtype
	}

	if upstream == nil && upstreamIndex == 0 {
		rt := c.runtime()
		if rt == nil || rt.routing == nil {
			return fmt.Errorf("dns routing is not configured")
		}
		upstreamIndex, upstream, err = rt.routing.RequestSelect(ctx, qname, qtype)
		if err != nil {
			return err
		}
	}

	if baseCacheKey == "" {
		baseCacheKey = c.cacheKey(qname, qtype)
	}
	if responseCacheKey == "" {
		responseCacheKey = c.responseCacheKey(baseCacheKey, req, upstreamIndex, upstream)
	}

	if upstreamIndex == consts.DnsRequestOutboundIndex_Reject {

		c.RemoveDnsRespCacheFamily(baseCacheKey)
		if !needResp {
			return nil
		}
		return c.sendRejectWithResponseWriter_(dnsMessage, req, responseWriter)
	}

	if resp, needRefresh := c.LookupDnsRespCache_(dnsMessage, responseCacheKey, false); resp != nil {

		if needRefresh {
			{
				_vf58 := c.backgroundRefresh
				_va59 := responseCacheKey
				_va60 := dnsMessage
				_va61 := req
				_va62 := upstreamIndex
				_va63 := upstream
				verifsim.Go("dns_control.go:2483", func() {
					_vf58(_va59, _va60, _va61, _va62, _va63)
				})
			}
		}

		if needResp {
			if err = c.writeCachedResponse(resp, dnsMessage.Id, req, responseWriter); err != nil {
				return err
			}
		}
		if c.log.IsLevelEnabled(logrus.DebugLevel) && len(dnsMessage.Question) > 0 {
			q := dnsMessage.Question[0]
			if req != nil {
				c.log.Debugf("UDP(DNS) %v <-> Cache: %v %v",
					RefineSourceToShow(req.realSrc, req.realDst.Addr()), strings.ToLower(q.Name), QtypeToString(q.Qtype),
				)
			} else {
				c.log.Debugf("UDP(DNS) Cache: %v %v", strings.ToLower(q.Name), QtypeToString(q.Qtype))
			}
		}
		return nil
	}

	if c.log.IsLevelEnabled(logrus.TraceLevel) {
		upstreamName := upstreamIndex.String()
		if upstream != nil {
			upstreamName = upstream.String()
		}
		c.log.WithFields(logrus.Fields{
			"question":	dnsMessage.Question,
			"upstream":	upstreamName,
		}).Traceln("Request to DNS upstream")
	}

	data, err := dnsMessage.Pack()
	if err != nil {
		return fmt.Errorf("pack DNS packet: %w", err)
	}
	return c.dialSend(ctx, 0, req, data, dnsMessage.Id, upstream, needResp, responseWriter, responseCacheKey, baseCacheKey)
}

func (c *DnsController) writeCachedResponse(resp []byte, reqId uint16, req *udpRequest, responseWriter dnsmessage.ResponseWriter) error {

	if responseWriter != nil {
		var respMsg dnsmessage.Msg
		if err := respMsg.Unpack(resp); err != nil {
			return fmt.Errorf("failed to unpack DNS response: %w", err)
		}

		respMsg.Id = reqId
		return responseWriter.WriteMsg(&respMsg)
	}

	if req == nil || req.lConn == nil {
		return fmt.Errorf("dns request connection is nil for cached response")
	}

	if len(resp) >= 2 && len(resp) <= 1024 {
		verifsim.Yield("dns_control.go:2550")
		bufPtr := dnsResponseBufPool.Get().(*[]byte)
		defer dnsResponseBufPool.Put(bufPtr)

		patchedResp := (*bufPtr)[:len(resp)]
		copy(patchedResp, resp)
		binary.BigEndian.PutUint16(patchedResp[0:2], reqId)

		if err := sendRuntimeTrackedPkt(c.log, patchedResp, req.realDst, req.realSrc, req.downloadRecorder()); err != nil {
			return fmt.Errorf("failed to write cached DNS resp: %w", err)
		}
		return nil
	}

	patchedResp := make([]byte, len(resp))
	copy(patchedResp, resp)
	if len(resp) >= 2 {
		binary.BigEndian.PutUint16(patchedResp[0:2], reqId)
	}

	if err := sendRuntimeTrackedPkt(c.log, patchedResp, req.realDst, req.realSrc, req.downloadRecorder()); err != nil {
		return fmt.Errorf("failed to write oversized cached DNS resp: %w", err)
	}
	return nil
}

func (c *DnsController) sendDnsErrorResponse_(
	dnsMessage *dnsmessage.Msg,
	rcode int,
	traceMsg string,
	req *udpRequest,
	responseWriter dnsmessage.ResponseWriter,
) (err error) {
	dnsMessage.Answer = nil
	dnsMessage.Rcode = rcode
	dnsMessage.Response = true
	dnsMessage.RecursionAvailable = true
	dnsMessage.Truncated = false
	dnsMessage.Compress = true
	if c.log.IsLevelEnabled(logrus.TraceLevel) {
		c.log.WithFields(logrus.Fields{
			"question": dnsMessage.Question,
		}).Traceln(traceMsg)
	}
	if responseWriter != nil {
		return responseWriter.WriteMsg(dnsMessage)
	}
	if req == nil || req.lConn == nil {
		return nil
	}
	data, err := dnsMessage.Pack()
	if err != nil {
		return fmt.Errorf("pack DNS packet: %w", err)
	}
	if err = sendRuntimeTrackedPkt(c.log, data, req.realDst, req.realSrc, req.downloadRecorder()); err != nil {
		return err
	}
	return nil
}

func (c *DnsController) sendRefusedWithResponseWriter_(dnsMessage *dnsmessage.Msg, req *udpRequest, responseWriter dnsmessage.ResponseWriter) (err error) {
	return c.sendDnsErrorResponse_(dnsMessage, dnsmessage.RcodeRefused, "Refused due to concurrency limit", req, responseWriter)
}

func (c *DnsController) sendDnsTruncatedResponse_(dnsMessage *dnsmessage.Msg, req *udpRequest, responseWriter dnsmessage.ResponseWriter) error {
	dnsMessage.Answer = nil
	dnsMessage.Rcode = dnsmessage.RcodeSuccess
	dnsMessage.Response = true
	dnsMessage.RecursionAvailable = true
	dnsMessage.Truncated = true
	dnsMessage.Compress = true
	if c.log.IsLevelEnabled(logrus.TraceLevel) {
		c.log.WithFields(logrus.Fields{
			"question": dnsMessage.Question,
		}).Traceln("Truncated")
	}
	if responseWriter != nil {
		return responseWriter.WriteMsg(dnsMessage)
	}
	if req == nil || req.lConn == nil {
		return nil
	}
	data, err := dnsMessage.Pack()
	if err != nil {
		return fmt.Errorf("pack DNS packet: %w", err)
	}
	if err = sendRuntimeTrackedPkt(c.log, data, req.realDst, req.realSrc, req.downloadRecorder()); err != nil {
		return err
	}
	return nil
}

func (c *DnsController) sendRejectWithResponseWriter_(dnsMessage *dnsmessage.Msg, req *udpRequest, responseWriter dnsmessage.ResponseWriter) (err error) {
	return c.sendDnsErrorResponse_(dnsMessage, dnsmessage.RcodeSuccess, "Reject", req, responseWriter)
}

func (c *DnsController) applyPreferenceWait(respMsg *dnsmessage.Msg) *dnsmessage.Msg {
	c.requireStore()

	if c.currentQtypePrefer() == 0 {
		return respMsg
	}

	if len(respMsg.Question) == 0 {
		return respMsg
	}
	q := respMsg.Question[0]
	if q.Qtype != dnsmessage.TypeA && q.Qtype != dnsmessage.TypeAAAA {
		return respMsg
	}

	qname := dnsmessage.CanonicalName(q.Name)

	qtypePrefer := c.currentQtypePrefer()
	if isPreferredType(q.Qtype, qtypePrefer) {

		if c.prefWaitRegistry.notifyPreferred(qname, q.Qtype, qtypePrefer) {
			if c.log.IsLevelEnabled(logrus.TraceLevel) {
				c.log.Tracef("Preferred %v response for %v notified waiting request", QtypeToString(q.Qtype), qname)
			}
		}
		return respMsg
	}

	if wait := c.prefWaitRegistry.registerWait(qname, q.Qtype, qtypePrefer); wait != nil {

		if c.log.IsLevelEnabled(logrus.TraceLevel) {
			c.log.Tracef("Non-preferred %v response for %v, waiting %v for preferred %v",
				QtypeToString(q.Qtype), qname, PreferenceResolutionDelay, QtypeToString(qtypePrefer))
		}

		preferred := wait.waitFor()

		c.prefWaitRegistry.remove(qname)

		if preferred {
			if c.log.IsLevelEnabled(logrus.TraceLevel) {
				c.log.Tracef("Preferred %v response arrived for %v during wait for %v",
					QtypeToString(qtypePrefer), qname, QtypeToString(q.Qtype))
			}
		} else if c.log.IsLevelEnabled(logrus.TraceLevel) {
			c.log.Tracef("Preferred %v response not arrived for %v within %v, using %v response",
				QtypeToString(qtypePrefer), qname, PreferenceResolutionDelay, QtypeToString(q.Qtype))
		}

		return respMsg
	}

	return respMsg
}

func (c *DnsController) dialSend(
	ctx context.Context,
	invokingDepth int,
	req *udpRequest,
	data []byte,
	id uint16,
	upstream *dns.Upstream,
	needResp bool,
	responseWriter dnsmessage.ResponseWriter,
	responseCacheKey string,
	baseCacheKey string,
) (err error) {
	data = append([]byte(nil), data...)
	if invokingDepth >= MaxDnsLookupDepth {
		return fmt.Errorf("too deep DNS lookup invoking (depth: %v); there may be infinite loop in your DNS response routing", MaxDnsLookupDepth)
	}

	upstreamName := "asis"
	if upstream == nil {

		// As-is should not be valid in response routing, thus using connection realDest is reasonable.
		var ip46 netutils.Ip46
		if req.realDst.Addr().Is4() {
			ip46.Ip4 = req.realDst.Addr()
		} else {
			ip46.Ip6 = req.realDst.Addr()
		}
		upstream = &dns.Upstream{
			Scheme:		"udp",
			Hostname:	req.realDst.Addr().String(),
			Port:		req.realDst.Port(),
			Ip46:		&ip46,
		}
	} else {
		upstreamName = upstream.String()
	}

	rt := c.runtime()
	if rt == nil || rt.bestDialerChooser == nil {
		return fmt.Errorf("dns controller runtime bestDialerChooser is not configured")
	}
	dialArg, err := rt.bestDialerChooser(ctx, req, upstream)
	if err != nil {
		return err
	}

	// Dial and send.
	var respMsg *dnsmessage.Msg
	var usedDialArg *dialArgument
	respMsg, usedDialArg, err = c.forwardWithFallback(ctx, req, upstream, dialArg, data)
	if err != nil {
		return err
	}

	networkType := &dialer.NetworkType{
		L4Proto:		usedDialArg.l4proto,
		IpVersion:		usedDialArg.ipversion,
		IsDns:			true,
		UdpHealthDomain:	dialer.UdpHealthDomainDns,
	}

	if rt.routing == nil {
		return fmt.Errorf("dns routing is not configured")
	}
	upstreamIndex, nextUpstream, err := rt.routing.ResponseSelect(ctx, respMsg, upstream)
	if err != nil {
		return err
	}
	switch upstreamIndex {
	case consts.DnsResponseOutboundIndex_Accept:

		if c.log.IsLevelEnabled(logrus.TraceLevel) {
			c.log.WithFields(logrus.Fields{
				"question":	respMsg.Question,
				"upstream":	upstreamName,
			}).Traceln("Accept")
		}
	case consts.DnsResponseOutboundIndex_Reject:

		respMsg.Answer = nil
		if c.log.IsLevelEnabled(logrus.TraceLevel) {
			c.log.WithFields(logrus.Fields{
				"question":	respMsg.Question,
				"upstream":	upstreamName,
			}).Traceln("Reject with empty answer")
		}

	default:
		if c.log.IsLevelEnabled(logrus.TraceLevel) {
			c.log.WithFields(logrus.Fields{
				"question":		respMsg.Question,
				"last_upstream":	upstreamName,
				"next_upstream":	nextUpstream.String(),
			}).Traceln("Change DNS upstream and resend")
		}
		return c.dialSend(ctx, invokingDepth+1, req, data, id, nextUpstream, needResp, responseWriter, responseCacheKey, baseCacheKey)
	}

	respMsg = c.applyPreferenceWait(respMsg)

	if upstreamIndex.IsReserved() && c.log.IsLevelEnabled(logrus.DebugLevel) {
		var (
			qname	string
			qtype	string
		)
		if len(respMsg.Question) > 0 {
			q := respMsg.Question[0]
			qname = strings.ToLower(q.Name)
			qtype = QtypeToString(q.Qtype)
		}
		fields := logrus.Fields{
			"network":	networkType.String(),
			"outbound":	usedDialArg.bestOutbound.Name,
			"policy":	usedDialArg.bestOutbound.GetSelectionPolicy(),
			"dialer":	usedDialArg.bestDialer.Property().Name,
			"_qname":	qname,
			"qtype":	qtype,
			"pid":		req.routingResult.Pid,
			"dscp":		req.routingResult.Dscp,
			"pname":	ProcessName2String(req.routingResult.Pname[:]),
			"mac":		Mac2String(req.routingResult.Mac[:]),
		}
		switch upstreamIndex {
		case consts.DnsResponseOutboundIndex_Accept:
			c.log.WithFields(fields).Debugf("%v <-> %v", RefineSourceToShow(req.realSrc, req.realDst.Addr()), RefineAddrPortToShow(usedDialArg.bestTarget))
		case consts.DnsResponseOutboundIndex_Reject:
			c.log.WithFields(fields).Debugf("%v -> reject", RefineSourceToShow(req.realSrc, req.realDst.Addr()))
		default:
			return fmt.Errorf("unknown upstream: %v", upstreamIndex.String())
		}
	}

	if needResp {

		respMsg.Id = id
		respMsg.Compress = true

		if responseWriter != nil {

			if err = c.NormalizeAndCacheDnsResp_(respMsg, responseCacheKey); err != nil {
				c.log.Warnf("failed to cache DNS response: %v", err)
			}
			return responseWriter.WriteMsg(respMsg)
		}
		data, err = respMsg.Pack()
		if err != nil {
			return err
		}
		if err = sendRuntimeTrackedPkt(c.log, data, req.realDst, req.realSrc, req.downloadRecorder()); err != nil {
			return err
		}
		verifsim.Go("dns_control.go:2899", func() {
			defer func() {
				if r := recover(); r != nil {
					c.log.Errorf("panic in async DNS cache: %v", r)
				}
			}()
			if err := c.NormalizeAndCacheDnsResp_(respMsg, responseCacheKey); err != nil {
				c.log.Debugf("failed to cache DNS response (async): %v", err)
			}
		})

		return nil
	}

	if err = c.NormalizeAndCacheDnsResp_(respMsg, responseCacheKey); err != nil {
		return err
	}
	return nil
}

func buildMinHeap(entries []cacheEntry) {
	n := len(entries)

	for i := n/2 - 1; i >= 0; i-- {
		heapifyMin(entries, i, n)
	}
}

func heapifyMin(entries []cacheEntry, i, n int) {
	for {
		smallest := i
		left := 2*i + 1
		right := 2*i + 2

		if left < n && entries[left].lastAccess < entries[smallest].lastAccess {
			smallest = left
		}
		if right < n && entries[right].lastAccess < entries[smallest].lastAccess {
			smallest = right
		}

		if smallest == i {
			break
		}

		entries[i], entries[smallest] = entries[smallest], entries[i]
		i = smallest
	}
}
